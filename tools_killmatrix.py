#!/usr/bin/env python3
"""Sensitivity self-test: apply small textual mutants (mutants/<ID>.json) to a scratch copy of
/repo's sleap_nn, run the property's quick check against it with a reduced budget and record
whether a replaying VIOLATION is reported. Also applies /verif/seeded/*/patch.diff.

usage: tools_killmatrix.py [ID ...] [--runs N] [--seeded] [--jobs J]
Writes /verif/mutants/RESULTS.json (and prints a table). Scratch copies live under /dev/shm.
"""
import glob
import json
import os
import shutil
import subprocess
import sys
import time

VERIF = os.path.dirname(os.path.abspath(__file__))


def run_check(pid, repo, runs, tag):
    env = dict(os.environ, VERIF_REPO=repo, VERIF_RUNS=str(runs), VERIF_TIME_CAP="150", VERIF_WORKERS="16",
               VERIF_EVIDENCE_DIR=f"/dev/shm/km-{tag}/evidence", VERIF_REPLAY_DIR=f"/dev/shm/km-{tag}/replays")
    t0 = time.time()
    p = subprocess.run([os.path.join(VERIF, "check"), pid, "--tier", "quick"], env=env, capture_output=True, text=True, cwd=VERIF, timeout=1500)
    sigs = [l for l in p.stdout.splitlines() if "violation classes seen" in l]
    return {"exit": p.returncode, "violation": "VIOLATION property=" in p.stdout, "harness_error": "HARNESS-ERROR" in p.stdout,
            "classes": sigs[0].split("seen: ")[1][:400] if sigs else "", "wall_s": round(time.time() - t0, 1),
            "tail": p.stdout[-600:] if p.returncode not in (0, 1) else ""}


def scratch(tag):
    d = f"/dev/shm/km-{tag}"
    shutil.rmtree(d, ignore_errors=True)
    os.makedirs(d)
    shutil.copytree("/repo/sleap_nn", d + "/sleap_nn")
    os.makedirs(d + "/tests", exist_ok=True)
    shutil.copytree("/repo/tests/assets", d + "/tests/assets")
    return d


def main():
    args = sys.argv[1:]
    runs = None
    seeded = "--seeded" in args
    if "--runs" in args:
        runs = int(args[args.index("--runs") + 1])
    ids = [a for a in args if a.startswith("C")]
    results = {}
    out_path = os.path.join(VERIF, "mutants", "RESULTS.json")
    if os.path.exists(out_path):
        results = json.load(open(out_path))
    if not seeded:
        for f in sorted(glob.glob(os.path.join(VERIF, "mutants", "C*.json"))):
            pid = os.path.basename(f)[:-5]
            if ids and pid not in ids:
                continue
            spec = json.load(open(f))
            for m in spec["mutants"]:
                tag = f"{pid}-{m['name']}"
                d = scratch(tag)
                try:
                    p = os.path.join(d, m["file"])
                    s = open(p).read()
                    if s.count(m["old"]) < 1:
                        results[tag] = {"error": "pattern not found"}
                        print(tag, "PATTERN NOT FOUND")
                        continue
                    open(p, "w").write(s.replace(m["old"], m["new"], 1))
                    r = run_check(pid, d, runs or spec.get("runs", 3000), tag)
                    r["note"] = m.get("note", "")
                    results[tag] = r
                    print(f"{tag:55s} {'KILLED' if r['violation'] else ('HARNESS' if r['harness_error'] else 'missed')}  {r['wall_s']}s  {r['classes'][:110]}")
                finally:
                    shutil.rmtree(d, ignore_errors=True)
                json.dump(results, open(out_path, "w"), indent=1)
    else:
        for mf in sorted(glob.glob(os.path.join(VERIF, "seeded", "*", "meta.json"))):
            meta = json.load(open(mf))
            name = os.path.basename(os.path.dirname(mf))
            if ids and meta["property"] not in ids:
                continue
            if "--only" in args and args[args.index("--only") + 1] not in name:
                continue
            if "--new" in args and any(k.startswith(f"seeded-{name}@") for k in results):
                continue
            tag = f"seeded-{name}"
            d = scratch(tag)
            try:
                pr = subprocess.run(["git", "apply", os.path.join(os.path.dirname(mf), "patch.diff")], cwd=d, capture_output=True, text=True)
                if pr.returncode != 0:
                    results[tag] = {"error": "patch does not apply: " + pr.stderr[-300:]}
                    print(tag, "PATCH FAILED", pr.stderr[-200:])
                    continue
                for pid in meta.get("run_checks", [meta["property"]]):
                    r = run_check(pid, d, runs or meta.get("runs", 0) or {"C19": 600, "C14": 500, "C12": 1500, "C03": 800, "C02": 1500, "C09": 30000, "C10": 30000}.get(pid, 4000), tag)
                    results[f"{tag}@{pid}"] = r
                    print(f"{tag + '@' + pid:55s} {'KILLED' if r['violation'] else ('HARNESS' if r['harness_error'] else 'missed')}  {r['wall_s']}s  {r['classes'][:110]}")
            finally:
                shutil.rmtree(d, ignore_errors=True)
            json.dump(results, open(out_path, "w"), indent=1)


if __name__ == "__main__":
    main()
