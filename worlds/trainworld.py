"""W4 - a training run on an interposed file system.

Seams (all harness-side, no repo change):
  * sys.addaudithook: every mutating FS operation is seen *before* it executes
    (open-for-write, rename/replace, remove, mkdir, rmdir, rmtree, symlink, link, truncate, copy)
  * model_trainer.wandb / model_trainer.WandbLogger -> in-process fake that persists
    everything it is told under save_dir/wandb (conservative for a never-on-disk property)
  * lightning_modules.time -> virtual clock
  * process death: the run executes in a forked child; `os._exit` inside the audit hook
"""

import errno
import gzip
import io
import os
import sys
import zipfile

from omegaconf import OmegaConf

MUTATING = {
    "os.rename", "os.remove", "os.mkdir", "os.rmdir", "shutil.rmtree", "os.symlink", "os.link",
    "os.truncate", "shutil.copyfile", "shutil.move", "shutil.copytree", "os.chmod", "os.utime",
}


class FSMonitor:
    """Process-wide audit hook (cannot be removed, so it is switched on/off)."""

    _installed = None

    def __init__(self):
        self.active = False
        self.roots = ()
        self.events = []
        self.on_event = None  # callable(index, kind, path) run BEFORE the operation
        self._busy = False
        self.main_pid = None

    @classmethod
    def get(cls):
        if cls._installed is None:
            m = cls()
            sys.addaudithook(m._hook)
            cls._installed = m
        return cls._installed

    def start(self, roots, on_event=None):
        self.roots = tuple(os.path.realpath(r) for r in roots)
        self.events = []
        self.on_event = on_event
        self.active = True
        self.main_pid = os.getpid()

    def stop(self):
        self.active = False
        self.on_event = None

    def _under(self, path):
        try:
            p = os.path.realpath(os.fspath(path))
        except Exception:
            return None
        for r in self.roots:
            if p == r or p.startswith(r + os.sep):
                return p
        return None

    def _hook(self, event, args):
        if not self.active or self._busy or os.getpid() != self.main_pid:
            return
        kind = None
        path = None
        if event == "open":
            p, mode, flags = args[0], args[1], args[2]
            if isinstance(p, int):
                return
            writing = False
            if mode is not None:
                writing = any(c in mode for c in "wax+")
            elif flags is not None:
                writing = bool(flags & (os.O_WRONLY | os.O_RDWR | os.O_CREAT | os.O_TRUNC | os.O_APPEND))
            if not writing:
                return
            kind, path = "open_w", p
        elif event in MUTATING:
            kind = event
            path = args[0]
            if event in ("os.rename", "shutil.copyfile", "shutil.move", "os.link", "os.symlink", "shutil.copytree"):
                # interested if either end is under a root
                a = self._under(args[0]) if args[0] is not None else None
                b = self._under(args[1]) if len(args) > 1 and args[1] is not None else None
                if a is None and b is None:
                    return
                path = b or a
        else:
            return
        self._busy = True
        try:
            p = self._under(path) if not (isinstance(path, str) and os.path.isabs(path) and self._under(path)) else self._under(path)
            if p is None:
                return
            idx = len(self.events)
            self.events.append((kind, p))
            if self.on_event is not None:
                self.on_event(idx, kind, p)
        finally:
            self._busy = False


def scan_bytes_for(data, needles):
    hits = []
    for n in needles:
        if n in data:
            hits.append(n)
    return hits


def scan_file(path, needles, depth=0):
    """Raw bytes + members of zip/npz/gz containers. Returns list of (where, needle)."""
    out = []
    try:
        if os.path.islink(path):
            tgt = os.readlink(path).encode()
            for n in scan_bytes_for(tgt, needles):
                out.append((path + "->link", n))
            if not os.path.exists(path):
                return out
        with open(path, "rb") as f:
            data = f.read()
    except (FileNotFoundError, IsADirectoryError, PermissionError):
        return out
    for n in scan_bytes_for(data, needles):
        out.append((path, n))
    if data[:2] == b"PK":
        try:
            with zipfile.ZipFile(io.BytesIO(data)) as z:
                for name in z.namelist():
                    try:
                        m = z.read(name)
                    except Exception:
                        continue
                    for n in scan_bytes_for(m, needles):
                        out.append((path + "!" + name, n))
        except Exception:
            pass
    elif data[:2] == b"\x1f\x8b":
        try:
            m = gzip.decompress(data)
            for n in scan_bytes_for(m, needles):
                out.append((path + "!gz", n))
        except Exception:
            pass
    return out


def tree_state(roots):
    """{path: (size, mtime_ns, is_link)} for every file under the roots."""
    st = {}
    for r in roots:
        for dp, dn, fn in os.walk(r):
            for n in fn:
                p = os.path.join(dp, n)
                try:
                    s = os.lstat(p)
                    st[p] = (s.st_size, s.st_mtime_ns, os.path.islink(p))
                except FileNotFoundError:
                    pass
    return st


def needles_for(key):
    import base64

    k = key.encode()
    return [k, base64.b64encode(k), k.hex().encode()]


# --------------------------------------------------------------------------- fake wandb
class FakeRunConfig:
    def __init__(self, run):
        self.run = run

    def update(self, d, **kw):
        self.run.config_updates.append(d)
        self.run._persist()


class FakeRun:
    def __init__(self, save_dir, run_id, login_key=None):
        self.id = run_id
        self.dir = os.path.join(save_dir, "wandb", f"offline-run-{run_id}", "files")
        os.makedirs(self.dir, exist_ok=True)
        self.config_updates = []
        self.logged = []
        self.config = FakeRunConfig(self)

    def _persist(self):
        # persist *everything* the run was told (conservative)
        import yaml

        def plain(x):
            try:
                return OmegaConf.to_container(x, resolve=True) if OmegaConf.is_config(x) else x
            except Exception:
                return repr(x)

        with open(os.path.join(self.dir, "config.yaml"), "w") as f:
            yaml.safe_dump([plain(u) for u in self.config_updates], f, default_flow_style=False)

    def log(self, d, **kw):
        self.logged.append(d)
        with open(os.path.join(self.dir, "wandb-history.jsonl"), "a") as f:
            f.write(repr(d) + "\n")


class FakeWandb:
    """Replacement for the `wandb` module attribute of model_trainer."""

    def __init__(self, run_id_seed):
        self.run = None
        self.login_keys = []
        self._n = 0
        self._seed = run_id_seed
        self.finished = 0

    login_fault = False

    def login(self, key=None, **kw):
        self.login_keys.append(key)  # real wandb writes ~/.netrc, i.e. outside the output dirs
        if self.login_fault:
            # the external service is a fault source too: network / authentication failure at login
            self.login_fault_fired = True
            raise ConnectionError("injected: wandb login failed (network unreachable)")
        return True

    def finish(self, *a, **k):
        self.finished += 1

    def new_run(self, save_dir, prv=None):
        self._n += 1
        rid = prv or f"sim{self._seed % 100000:05d}r{self._n}"
        self.run = FakeRun(save_dir, rid)
        return self.run


def make_fake_logger_class(fake):
    from lightning.pytorch.loggers.logger import Logger
    from lightning.pytorch.utilities import rank_zero_only

    class FakeWandbLogger(Logger):
        def __init__(self, entity=None, project=None, name=None, save_dir=".", id=None, group=None, **kw):
            super().__init__()
            self._save_dir = save_dir
            self._name = name
            self._id = id
            self._init = {"entity": entity, "project": project, "name": name, "group": group}
            self._run = None  # like Lightning's WandbLogger: the run is created on first access to .experiment, not here

        @property
        def experiment(self):
            if self._run is None:
                self._run = fake.new_run(self._save_dir, prv=self._id)
                self._run.config_updates.append({"_init": self._init})
                self._run._persist()
            return self._run

        @property
        def name(self):
            return self._name or "fake"

        @property
        def version(self):
            # Lightning: "don't create an experiment if we don't have one" - before the run exists this is the constructor's id
            return self._run.id if self._run is not None else self._id

        @property
        def save_dir(self):
            return self._save_dir

        @rank_zero_only
        def log_hyperparams(self, params, *a, **k):
            self.experiment.config_updates.append({"hparams": _plain(params)})
            self.experiment._persist()

        @rank_zero_only
        def log_metrics(self, metrics, step=None):
            self.experiment.log(dict(metrics, step=step))

    return FakeWandbLogger


def _plain(x):
    try:
        if OmegaConf.is_config(x):
            return OmegaConf.to_container(x, resolve=True)
        if isinstance(x, dict):
            return {str(k): _plain(v) for k, v in x.items()}
        if isinstance(x, (list, tuple)):
            return [_plain(v) for v in x]
        if isinstance(x, (int, float, str, bool)) or x is None:
            return x
        return repr(x)
    except Exception:
        return repr(x)


# --------------------------------------------------------------------------- configs
def head_cfg(model_type):
    heads = {"single_instance": None, "centroid": None, "centered_instance": None, "bottomup": None}
    if model_type == "single_instance":
        heads["single_instance"] = {"confmaps": {"part_names": None, "sigma": 1.5, "output_stride": 2}}
    elif model_type == "centroid":
        heads["centroid"] = {"confmaps": {"anchor_part": 0, "sigma": 1.5, "output_stride": 2}}
    elif model_type == "centered_instance":
        heads["centered_instance"] = {"confmaps": {"part_names": None, "anchor_part": 0, "sigma": 1.5, "output_stride": 2}}
    else:
        heads["bottomup"] = {
            "confmaps": {"part_names": None, "sigma": 1.5, "output_stride": 2, "loss_weight": 1.0},
            "pafs": {"edges": None, "sigma": 4.0, "output_stride": 4, "loss_weight": 1.0},
        }
    return heads


def plain_config(p, save_dir, chunks_dir, slp, key):
    """The nested dict a user would write in YAML."""
    return {
        "data_config": {
            "provider": "LabelsReader",
            "train_labels_path": slp,
            "val_labels_path": slp,
            "user_instances_only": True,
            "data_pipeline_fw": p["fw"],
            "np_chunks_path": chunks_dir,
            "use_existing_chunks": False,
            "delete_chunks_after_training": p["delete_chunks"],
            "preprocessing": {"is_rgb": bool(p.get("is_rgb")), "max_width": p.get("max_hw"), "max_height": p.get("max_hw"), "scale": p.get("scale", 0.25),
                              "crop_hw": [48, 48] if (p["model_type"] == "centered_instance" and not p.get("crop_auto")) else None,
                              "min_crop_size": p.get("min_crop_size")},
            "use_augmentations_train": p.get("aug", False),
            "augmentation_config": {"intensity": {"contrast_p": 0.5}, "geometric": {"rotation": 15.0, "affine_p": 0.5}},
        },
        "model_config": {
            "init_weights": "default",
            "pre_trained_weights": None,
            "pretrained_backbone_weights": None,
            "pretrained_head_weights": None,
            "backbone_config": {"unet": {"in_channels": 3 if p.get("is_rgb") else 1, "kernel_size": 3, "filters": 4, "filters_rate": 1.5,
                                         "max_stride": 8, "convs_per_block": 2, "stacks": 1, "stem_stride": None,
                                         "middle_block": True, "up_interpolate": True, "output_stride": p.get("bb_stride", 2)}},
            "head_configs": head_cfg(p["model_type"]),
        },
        "trainer_config": {
            "train_data_loader": {"batch_size": 1, "shuffle": True, "num_workers": 0},
            "val_data_loader": {"batch_size": 1, "num_workers": 0},
            "model_ckpt": {"save_top_k": 1, "save_last": p["save_last"]},
            "early_stopping": None if p.get("early_null") else {"stop_training_on_plateau": p.get("early", False), "min_delta": 1e-8, "patience": 3},
            "trainer_devices": 1,
            "trainer_accelerator": "cpu",
            "enable_progress_bar": False,
            "profiler": p.get("profiler"),
            "steps_per_epoch": None if p.get("steps_none") else 1,  # None: derived from the dataset length (2-3 tiny frames)
            "max_epochs": p.get("epochs", 1),
            "seed": None if p.get("seed_none") else 1000,
            "use_wandb": p["use_wandb"],
            "save_ckpt": p["save_ckpt"],
            "save_ckpt_path": None if p.get("ckpt_path_none") else save_dir,  # None: the documented default "./"
            "resume_ckpt_path": resume_ckpt(p, save_dir),
            "wandb": {"entity": None, "project": "simproj", "name": "simrun", "wandb_mode": p.get("wandb_mode"),
                      "api_key": key, "prv_runid": resume_runid(p), "group": None},
            "optimizer_name": p.get("optimizer", "Adam"),
            "optimizer": {"lr": 1e-4, "amsgrad": False},
            "lr_scheduler": lr_section(p.get("lr_sched", "plateau")),
        },
    }


def resume_ckpt(p, save_dir):
    """Resuming: continue from the checkpoint the earlier run in this folder left (history `rerun`, same model type)."""
    return os.path.join(save_dir, "best.ckpt") if p.get("resume") else None


def resume_runid(p):
    return f"sim{p['seed'] % 100000:05d}r1" if (p.get("resume") and p["use_wandb"]) else None  # the earlier run's id in the fake service


PLATEAU = {"threshold": 1e-7, "threshold_mode": "rel", "cooldown": 3, "patience": 5, "factor": 0.5, "min_lr": 1e-8}


def lr_section(kind):
    """The documented shapes of trainer_config.lr_scheduler (schema: Optional[LRSchedulerConfig], both members optional)."""
    if kind == "plateau":
        return {"reduce_lr_on_plateau": dict(PLATEAU)}
    if kind == "step":
        return {"step_lr": {"step_size": 10, "gamma": 0.5}}
    if kind == "both_null":
        return {"step_lr": None, "reduce_lr_on_plateau": None}
    if kind == "null":
        return None
    raise ValueError(kind)


def build_config(p, save_dir, chunks_dir, slp, key):
    """origin: 'plain' (OmegaConf.create), 'yaml' (saved + loaded), 'structured' (train.py builders)."""
    d = plain_config(p, save_dir, chunks_dir, slp, key)
    origin = p["origin"]
    if origin == "plain":
        return OmegaConf.create(d)
    if origin == "yaml":
        # the user's YAML lives outside the output roots
        path = os.path.join(os.path.dirname(save_dir), "user_config.yaml")
        if p.get("yaml_filename"):
            d["filename"] = path  # schema field "Path to this config file if it was loaded from disk": the file that still holds the key
        OmegaConf.save(OmegaConf.create(d), path)
        return OmegaConf.load(path)
    # structured: the programmatic builders
    from sleap_nn import train as T
    from sleap_nn.config.training_job_config import TrainingJobConfig

    dc = d["data_config"]
    pre = dc["preprocessing"]
    data_config = T.get_data_config(
        train_labels_path=slp, val_labels_path=slp, data_pipeline_fw=p["fw"], np_chunks_path=chunks_dir,
        delete_chunks_after_training=p["delete_chunks"], is_rgb=pre["is_rgb"], scale=pre["scale"], max_height=pre["max_height"], max_width=pre["max_width"],
        crop_hw=tuple(pre["crop_hw"]) if pre["crop_hw"] else None, min_crop_size=pre["min_crop_size"],
        use_augmentations_train=bool(p.get("aug", False)),
    )
    heads = {k: v for k, v in d["model_config"]["head_configs"].items()}
    model_config = T.get_model_config(
        backbone_config=d["model_config"]["backbone_config"],
        head_configs=heads,
    )
    tc = d["trainer_config"]
    trainer_config = T.get_trainer_config(
        batch_size=1, shuffle_train=True, num_workers=0, ckpt_save_top_k=1, ckpt_save_last=p["save_last"],
        trainer_num_devices=1, trainer_accelerator="cpu", enable_progress_bar=False, steps_per_epoch=tc["steps_per_epoch"],
        max_epochs=tc["max_epochs"], seed=tc["seed"], use_wandb=p["use_wandb"], save_ckpt=p["save_ckpt"],
        save_ckpt_path=tc["save_ckpt_path"], wandb_project="simproj", wandb_name="simrun", wandb_api_key=key,
        wandb_mode=p.get("wandb_mode"), learning_rate=1e-4, optimizer=p.get("optimizer", "Adam"),
        resume_ckpt_path=resume_ckpt(p, save_dir), wandb_resume_prv_runid=resume_runid(p),
        lr_scheduler={"plateau": {"reduce_lr_on_plateau": dict(PLATEAU)}, "step": "step_lr", "both_null": None, "null": None}[p.get("lr_sched", "plateau")],
        early_stopping=bool(tc["early_stopping"] and tc["early_stopping"]["stop_training_on_plateau"]),
    )
    cfg = TrainingJobConfig(data_config=data_config, model_config=model_config, trainer_config=trainer_config)
    return cfg.to_sleap_nn_cfg()


# --------------------------------------------------------------------------- synthetic labels
def synthetic_labels(seed, model_type):
    import random

    import numpy as np

    from worlds import media

    r = random.Random(seed)
    n_frames = r.choice([2, 3])
    H = r.choice([48, 64, 72])
    W = r.choice([48, 64, 80])
    n_nodes = r.choice([2, 3])
    n_animals = 1 if model_type == "single_instance" else r.choice([1, 2])
    rs = np.random.RandomState(seed % (2**31))
    frames = rs.randint(0, 255, size=(n_frames, H, W, 1)).astype(np.uint8)
    v = media.make_mem_video(frames, name="synthetic.mp4")
    sk = media.make_skeleton(n_nodes)
    spec = []
    for f in range(n_frames):
        insts = []
        for a in range(n_animals):
            cx, cy = r.uniform(14, W - 14), r.uniform(14, H - 14)
            pts = [[cx + r.uniform(-8, 8), cy + r.uniform(-8, 8)] for _ in range(n_nodes)]
            insts.append((np.array(pts), False))
        spec.append((0, f, insts))
    return media.make_labels([v], sk, spec)


def quiet_lightning():
    import logging
    import warnings

    warnings.filterwarnings("ignore")
    for name in ("lightning", "lightning.pytorch", "lightning.fabric", "pytorch_lightning",
                 "lightning.pytorch.utilities.rank_zero", "lightning.pytorch.accelerators.cuda"):
        lg = logging.getLogger(name)
        lg.setLevel(logging.ERROR)
        lg.propagate = False


def flatten(d, prefix=""):
    out = {}
    if isinstance(d, dict):
        for k, v in d.items():
            out.update(flatten(v, f"{prefix}.{k}" if prefix else str(k)))
    elif isinstance(d, (list, tuple)):
        out[prefix] = [x for x in _tolist(d)]
    else:
        out[prefix] = d
    return out


def _tolist(x):
    return [(_tolist(v) if isinstance(v, (list, tuple)) else v) for v in x]


class VirtualTime:
    """Replacement for the `time` module attribute of lightning_modules."""

    def __init__(self):
        self.now = 1_700_000_000.0

    def time(self):
        self.now += 0.25
        return self.now


KEY_PATH = "trainer_config.wandb.api_key"


def run_trainer_child(plan, root, key):
    """Runs inside a forked child. Returns a JSON-able result dict (or dies, in crash mode)."""
    import contextlib

    import sleap_io as sio

    import sleap_nn.training.lightning_modules as lm
    import sleap_nn.training.model_trainer as mt

    quiet_lightning()
    import random as _random

    import numpy as _np
    import torch as _torch

    # the process RNGs are part of the simulated world: a configuration that leaves them unseeded (seed: null) still replays
    _torch.manual_seed(plan["seed"] % (2**31))
    _np.random.seed(plan["seed"] % (2**31))
    _random.seed(plan["seed"])
    out_dir = os.path.join(root, "out")
    chunks_dir = os.path.join(root, "chunks") if plan["explicit_chunks"] else None
    # output roots: the checkpoint dir, the chunk dir and the working directory (the low-memory fallback writes
    # ./train_chunks there); the harness's own scratch (tmp/, the user's YAML) is kept outside them
    work_dir = os.path.join(root, "cwd")
    os.makedirs(work_dir, exist_ok=True)
    if plan.get("ckpt_path_none"):
        out_dir = work_dir  # save_ckpt_path left at its default: everything lands in the working directory
    roots = [out_dir, work_dir] + ([chunks_dir] if chunks_dir else [])
    tmpdir = os.path.join(root, "tmp") if plan["tmp_same_fs"] else "/tmp"
    os.makedirs(tmpdir, exist_ok=True)
    os.environ["TMPDIR"] = tmpdir
    import tempfile

    tempfile.tempdir = tmpdir
    os.makedirs(os.path.join(root, "cwd"), exist_ok=True)
    os.chdir(os.path.join(root, "cwd"))
    prev_key = "P" + key[1:][::-1]  # the key of the earlier run when an output folder is reused
    needles = needles_for(key) + (needles_for(prev_key) if plan.get("rerun") else [])
    from simcore import shims

    slp = os.path.join(shims.REPO, "tests/assets/minimal_instance.pkg.slp")
    if not os.path.exists(slp):
        slp = "/repo/tests/assets/minimal_instance.pkg.slp"
    labels = None
    if plan["data"] == "synthetic":
        labels = synthetic_labels(plan["seed"], plan["model_type"])
        slp = os.path.join(root, "synthetic.slp")
    cfg = build_config(plan, out_dir, chunks_dir, slp, key)
    supplied = flatten(OmegaConf.to_container(cfg, resolve=True))
    fake = FakeWandb(plan["seed"])
    fake.login_fault = bool(plan.get("login_fault"))
    mon = FSMonitor.get()
    res = {
        "events": [], "hits": [], "error": None, "phase": "start", "fault_fired": None,
        "inspections": 0, "files_scanned": 0,
    }
    scanned = {}

    def inspect(tag, full=False):
        """Durable-state inspection = what a crash at this instant would leave behind."""
        st = tree_state(roots)
        res["inspections"] += 1
        for pth, sig in st.items():
            if not full and scanned.get(pth) == sig:
                continue
            scanned[pth] = sig
            res["files_scanned"] += 1
            for where, n in scan_file(pth, needles):
                rel = where.replace(root, "")
                if not any(h["file"] == rel for h in res["hits"]):
                    res["hits"].append({"file": rel, "at": tag, "phase": res["phase"], "enc": needles.index(n)})

    mode, fault_at = plan["mode"], plan.get("fault_at")

    def on_event(idx, kind, pth):
        rel = pth.replace(root, "")
        res["events"].append((kind, rel))
        inspect(f"event {idx} before {kind} {rel}")
        if fault_at is not None and idx == fault_at:
            if mode == "crash":
                res["fault_fired"] = "crash"
                os._exit(77)
            if mode == "disk_error":
                res["fault_fired"] = plan.get("errno", "ENOSPC")
                raise OSError(getattr(errno, plan.get("errno", "ENOSPC")), "injected disk fault", pth)

    vt = VirtualTime()
    saved = (mt.wandb, mt.WandbLogger, sio.load_slp, lm.time)
    saved_psutil = mt.psutil
    mt.wandb = fake
    mt.WandbLogger = make_fake_logger_class(fake)
    lm.time = vt
    if plan.get("low_memory"):
        # memory pressure as a fault: the machine reports (almost) no available RAM when the loaders are built
        class _VM:
            available = 1024

        class _FakePsutil:
            @staticmethod
            def virtual_memory():
                res["fault_fired_low_memory"] = True
                return _VM()

        mt.psutil = _FakePsutil
    if labels is not None:
        sio.load_slp = lambda path, **kw: labels
    if plan.get("resume"):
        # sandbox shim (child process only): torch >= 2.6 defaults torch.load(weights_only=True), under which Lightning cannot
        # re-load its own checkpoints that carry the OmegaConf hyper-parameters; the torch the repository targets loads them
        import torch

        _tl = torch.load
        torch.load = lambda *a, **k: _tl(*a, **{**k, "weights_only": False})
    trainer = None
    sink = io.StringIO()
    mon.start(roots, on_event=on_event)
    try:
        with contextlib.redirect_stdout(sink), contextlib.redirect_stderr(sink):
            if plan.get("rerun"):
                # history: an EARLIER run with another configuration (and another key) already used this output folder
                p0 = dict(plan, epochs=3 - plan.get("epochs", 1), save_last=not bool(plan["save_last"]), aug=True, early=True,
                          delete_chunks=False, resume=False)  # the earlier run kept its chunk files
                if plan.get("rerun_other_model"):
                    p0["model_type"] = plan["rerun_other_model"]  # ... and was another model type (another number of samples)
                cfg0 = build_config(p0, out_dir, chunks_dir, slp, prev_key)
                OmegaConf.update(cfg0, "trainer_config.optimizer.lr", 0.003, force_add=True)
                OmegaConf.update(cfg0, "trainer_config.seed", 7, force_add=True)
                res["phase"] = "earlier_run"
                t0 = mt.ModelTrainer(cfg0)
                t0.train()
                res["events_before_rerun"] = len(res["events"])
                fake.finished = 0
            res["phase"] = "init"
            trainer = mt.ModelTrainer(cfg)
            res["phase"] = "init_done"
            inspect("after ModelTrainer.__init__", full=True)
            res["phase"] = "train"
            trainer.train()
            res["phase"] = "done"
    except BaseException as e:  # judged by the oracle
        import traceback

        res["error"] = f"{type(e).__name__}: {e}"[:600]
        res["error_type"] = type(e).__name__
        res["error_where"] = _where_tb(sys.exc_info()[2])
        res["tb"] = traceback.format_exc()[-1500:]
    finally:
        mon.stop()
        mt.wandb, mt.WandbLogger, sio.load_slp, lm.time = saved
        mt.psutil = saved_psutil
    inspect("exit", full=True)
    # ---- artifact facts (evaluated by the parent oracle) -------------------
    files = sorted(p.replace(root, "") for p in tree_state(roots))
    res["files"] = files
    art = {}
    ic = os.path.join(out_dir, "initial_config.yaml")
    tc = os.path.join(out_dir, "training_config.yaml")
    if os.path.exists(ic):
        got = flatten(OmegaConf.to_container(OmegaConf.load(ic), resolve=True))
        diffs = []
        for k, v in supplied.items():
            if k == KEY_PATH:
                if got.get(k) not in ("", None):
                    diffs.append((k, "<key>", "<not blank>"))
                continue
            if k not in got or _neq(got[k], v):
                diffs.append((k, repr(v)[:80], repr(got.get(k, "<missing>"))[:80]))
        art["initial_diffs"] = diffs[:8]
    else:
        art["initial_diffs"] = None
    if os.path.exists(tc) and trainer is not None:
        got = flatten(OmegaConf.to_container(OmegaConf.load(tc), resolve=True))
        used = flatten(OmegaConf.to_container(OmegaConf.create(OmegaConf.to_yaml(trainer.config, resolve=True))))
        diffs = []
        for k in sorted(set(got) | set(used)):
            if k == KEY_PATH:
                if got.get(k) not in ("", None):
                    diffs.append((k, "<key>", "<not blank>"))
                continue
            if k not in got or k not in used or _neq(got[k], used[k]):
                diffs.append((k, repr(used.get(k, "<missing>"))[:80], repr(got.get(k, "<missing>"))[:80]))
        art["final_diffs"] = diffs[:8]
    else:
        art["final_diffs"] = None
    art["best"] = os.path.exists(os.path.join(out_dir, "best.ckpt"))
    art["last"] = os.path.lexists(os.path.join(out_dir, "last.ckpt"))
    base = chunks_dir or out_dir
    art["npz_left"] = [f for f in files if f.endswith(".npz")]
    art["login_keys"] = len(fake.login_keys)
    if getattr(fake, "login_fault_fired", False):
        res["fault_fired_login"] = True
    art["wandb_finished"] = fake.finished
    art["wandb_run_id"] = fake.run.id if fake.run is not None else None  # the run the training actually logged to
    if os.path.exists(tc):
        art["final_run_id"] = OmegaConf.select(OmegaConf.load(tc), "trainer_config.wandb.run_id", default="<absent>")
    res["artifacts"] = art
    return res


def _neq(a, b):
    if isinstance(a, float) or isinstance(b, float):
        try:
            return abs(float(a) - float(b)) > 1e-12
        except Exception:
            return True
    return a != b


def _where_tb(tb):
    import traceback

    loc = "?"
    for fs in traceback.extract_tb(tb):
        if "sleap_nn" in fs.filename:
            loc = fs.filename.split("sleap_nn/")[-1] + ":" + fs.name
    return loc


def run_in_child(plan, root, key, timeout=240):
    """Fork, run the trainer, return (result dict | None, exit status)."""
    import json
    import select
    import signal
    import time

    r, w = os.pipe()
    sys.stdout.flush()
    sys.stderr.flush()
    pid = os.fork()
    if pid == 0:
        code = 0
        try:
            os.close(r)
            try:
                res = run_trainer_child(plan, root, key)
                data = json.dumps(res, default=str).encode()
            except BaseException as e:  # harness failure inside the child
                import traceback

                data = json.dumps({"harness_error": repr(e), "tb": traceback.format_exc()[-3000:]}).encode()
                code = 3
            with os.fdopen(w, "wb") as f:
                f.write(data)
        finally:
            os._exit(code)
    os.close(w)
    chunks = []
    t0 = time.time()
    try:
        while True:
            left = timeout - (time.time() - t0)
            if left <= 0:
                os.kill(pid, signal.SIGKILL)
                os.waitpid(pid, 0)
                return None, "timeout"
            rd, _, _ = select.select([r], [], [], min(left, 5.0))
            if rd:
                b = os.read(r, 1 << 20)
                if not b:
                    break
                chunks.append(b)
    finally:
        os.close(r)
    _, status = os.waitpid(pid, 0)
    code = os.waitstatus_to_exitcode(status)
    data = b"".join(chunks)
    if data:
        try:
            return json.loads(data.decode()), code
        except Exception:
            return None, code
    return None, code
