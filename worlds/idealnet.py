"""The 'ideal network' stub for the inference world.

It is a pure function of the tensor it is handed: it decodes, from the coordinate-
carrying content, WHICH frame it sees and WHERE each of its pixels came from (per-axis
least-squares fit over valid pixels), places the scene's keypoints in given-image
coordinates and returns what a perfectly trained network would return for that image.
Whatever sleap-nn does to the image before calling the network (resize, pad, crop) is
therefore observed, not assumed.
"""

import math

import numpy as np
import torch

from worlds.dataworld import OFFSET


def frame_of_level(level):
    return int(round((level - 40) / 9.0))


def fit_axes(img):
    """img (3,H,W) float [0,1]. Returns (frame_k, ax, bx, ay, by) with x_orig = ax*u + bx, or None."""
    c = img.detach().double() * 255.0
    c2 = c[2]
    cand = c2[c2 > 30.0]
    if cand.numel() < 6:
        return None
    lv = torch.round(cand)
    vals, counts = torch.unique(lv, return_counts=True)
    level = float(vals[int(torch.argmax(counts))])
    valid = (c2 - level).abs() <= 1.2
    if int(valid.sum()) < 6:
        return None
    H, W = c2.shape
    vv, uu = torch.meshgrid(torch.arange(H, dtype=torch.double), torch.arange(W, dtype=torch.double), indexing="ij")
    u = uu[valid]
    v = vv[valid]
    xo = c[0][valid] - OFFSET
    yo = c[1][valid] - OFFSET

    def lin(t, y):
        tm, ym = t.mean(), y.mean()
        var = ((t - tm) ** 2).sum()
        if float(var) < 1e-9:
            return None
        a = float(((t - tm) * (y - ym)).sum() / var)
        return a, float(ym - a * tm)

    fx, fy = lin(u, xo), lin(v, yo)
    if fx is None or fy is None or abs(fx[0]) < 1e-6 or abs(fy[0]) < 1e-6:
        return None
    return frame_of_level(level), fx[0], fx[1], fy[0], fy[1]


def to_given(pts, fit):
    """Original coordinates (n,2) -> given-image coordinates."""
    _, ax, bx, ay, by = fit
    out = np.array(pts, dtype=np.float64).copy()
    out[:, 0] = (out[:, 0] - bx) / ax
    out[:, 1] = (out[:, 1] - by) / ay
    return out


def centroid_of(pts, anchor):
    pts = np.asarray(pts, dtype=np.float64)
    vis = ~np.isnan(pts).any(axis=1)
    if not vis.any():
        return None
    if anchor is not None and vis[anchor]:
        return pts[anchor]
    return (pts[vis].min(axis=0) + pts[vis].max(axis=0)) * 0.5


def bumps(points, H, W, stride, sigma):
    """Closed-form C01 targets: (n,h,w) with exp(-d^2/(2 (sigma*stride)^2)) on the stride grid; NaN -> zeros."""
    gx = torch.arange(0, W, stride, dtype=torch.float32)
    gy = torch.arange(0, H, stride, dtype=torch.float32)
    n = len(points)
    out = torch.zeros((n, len(gy), len(gx)), dtype=torch.float32)
    s2 = 2.0 * (sigma * stride) ** 2
    for j, p in enumerate(points):
        if p is None or not (p[0] == p[0] and p[1] == p[1]):
            continue
        dx = (gx - float(p[0])) ** 2
        dy = (gy - float(p[1])) ** 2
        out[j] = torch.exp(-(dy[:, None] + dx[None, :]) / s2)
    return out


class IdealNet(torch.nn.Module):
    """kind: 'single' | 'centroid' | 'centered' | 'bottomup'."""

    def __init__(self, scene_frames, kind, stride, sigma, n_nodes, anchor=None, edges=None, paf_stride=None, paf_sigma=None):
        super().__init__()
        self.scene_frames = scene_frames  # {frame_k: [ (n_nodes,2) arrays ]}
        self.kind = kind
        self.stride = stride
        self.sigma = sigma
        self.n_nodes = n_nodes
        self.anchor = anchor
        self.edges = edges
        self.paf_stride = paf_stride
        self.paf_sigma = paf_sigma
        self.calls = []
        self.fits = []
        # smallest distance (px) of any local-peak target to a tie line (exactly half-way between two grid cells):
        # there the ideal map has two equal maxima and a strict local-maximum detector legitimately finds none.
        self.min_tie = float("inf")
        # frames whose maps carry a negative halo around every peak (what real networks do: ringing next to a peak). The halo is
        # centred on the peak, so it moves no maximum; it only makes some map values negative. Used by batch-independence
        # checks only (never by the accuracy oracles).
        self.ringing = set()

    def _tie(self, pts, S):
        for p in pts:
            if p is None:
                continue
            for c in (float(p[0]), float(p[1])):
                if c == c:
                    self.min_tie = min(self.min_tie, abs(((c / S) % 1.0) - 0.5) * S)

    def forward(self, x):
        if x.ndim == 5:
            x = x.squeeze(1)
        B, C, H, W = x.shape
        self.calls.append((B, H, W))
        S = self.stride
        if self.kind == "blob":
            # grayscale blob frames: the image is its own confidence map, sampled on the stride grid
            return x[:, :1, ::S, ::S].clone()
        outs = []
        pafs = []
        for b in range(B):
            fit = fit_axes(x[b]) if C == 3 else None
            animals = self.scene_frames.get(fit[0], []) if fit is not None else []
            self.fits.append(fit)
            given = [to_given(a, fit) for a in animals]
            ring = fit is not None and fit[0] in self.ringing

            def halo(m, pts_):
                return m - 0.12 * bumps(list(pts_), H, W, S, self.sigma * 2.5) if ring else m

            if self.kind == "single":
                pts = given[0] if given else [None] * self.n_nodes
                outs.append(halo(bumps(list(pts), H, W, S, self.sigma), pts))
            elif self.kind == "centroid":
                cm = torch.zeros((1, len(range(0, H, S)), len(range(0, W, S))))
                hl = torch.zeros_like(cm)
                for g in given:
                    c = centroid_of(g, self.anchor)
                    if c is not None:
                        self._tie([c], S)
                        cm = torch.maximum(cm, bumps([c], H, W, S, self.sigma))
                        hl = torch.maximum(hl, bumps([c], H, W, S, self.sigma * 2.5))
                outs.append(cm - 0.12 * hl if ring else cm)
            elif self.kind == "centered":
                best, bd = None, None
                for g in given:
                    c = centroid_of(g, self.anchor)
                    if c is None:
                        continue
                    d = (c[0] - (W - 1) / 2.0) ** 2 + (c[1] - (H - 1) / 2.0) ** 2
                    if bd is None or d < bd:
                        best, bd = g, d
                pts = list(best) if best is not None else [None] * self.n_nodes
                outs.append(halo(bumps(pts, H, W, S, self.sigma), pts))
            else:
                from sleap_nn.data.confidence_maps import generate_multiconfmaps
                from sleap_nn.data.edge_maps import generate_pafs

                for g in given:
                    self._tie(list(g), S)
                if given:
                    inst = torch.tensor(np.stack(given)[None], dtype=torch.float32)
                else:
                    inst = torch.full((1, 1, self.n_nodes, 2), float("nan"))
                cm = generate_multiconfmaps(inst, img_hw=(H, W), num_instances=inst.shape[1], sigma=self.sigma, output_stride=S, is_centroids=False)
                pf = generate_pafs(inst, img_hw=(H, W), sigma=self.paf_sigma, output_stride=self.paf_stride,
                                   edge_inds=torch.Tensor(self.edges), flatten_channels=True)
                outs.append(cm[0])
                pafs.append(pf)
        if self.kind == "bottomup":
            return {"MultiInstanceConfmapsHead": torch.stack(outs), "PartAffinityFieldsHead": torch.stack(pafs)}
        return torch.stack(outs)
