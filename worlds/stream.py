"""W1 - the inference stream: real reader thread + SimQueue + real _predict_generator.

`run_stream` wires one simulated execution and returns everything the oracles need:
the items the consumer dequeued, the records the generator yielded, how it ended, the
scheduler's trace/stats, and which faults really fired.
"""

import queue as _queue
import random
import time as _time

import numpy as np
import torch

from simcore.sched import ChoiceSource, HarnessError, Sim, SimAbort, SimQueue

EXC_TYPES = {
    "OSError": OSError,
    "IndexError": IndexError,
    "ValueError": ValueError,
    "RuntimeError": RuntimeError,
    "KeyError": KeyError,
    "MemoryError": MemoryError,
}


class ReadFaults:
    """on_read hook: scheduling point + fault injection at the frame-read seam."""

    def __init__(self, sim, faults, key_of=None):
        self.sim = sim
        self.by_key = {}
        for f in faults:
            if f["kind"] in ("read_error", "bad_frame"):
                self.by_key.setdefault(f["at"], f)
        self.fired = {}
        self.reads = []
        self.key_of = key_of

    def __call__(self, video, idx):
        key = self.key_of(video, idx) if self.key_of else idx
        self.sim.yield_point("read", key)
        self.reads.append(key)
        f = self.by_key.get(key)
        if f is None:
            return None
        self.fired[f["kind"]] = self.fired.get(f["kind"], 0) + 1
        self.sim._record(self.sim._me(), "fault", (f["kind"], key))
        if f["kind"] == "read_error":
            raise EXC_TYPES[f.get("exc", "OSError")](f"injected read failure at frame {key}")
        # bad_frame: decode garbage of the wrong rank -> reader's own code must cope
        how = f.get("how", "rank2")
        if how == "rank2":
            return np.zeros((4, 4), dtype=np.uint8)
        if how == "none":
            return None if False else np.array(None, dtype=object)
        return np.zeros((4,), dtype=np.uint8)


class Recorder:
    """Stands in for the inference model: reports what batch it was handed."""

    def __init__(self, decode_ident):
        self.batches = []
        self.decode_ident = decode_ident

    def __call__(self, ex):
        n = ex["image"].shape[0]
        self.batches.append(n)
        out = {
            "frame_idx": ex["frame_idx"],
            "video_idx": ex["video_idx"],
            "orig_size": ex["orig_size"],
            "eff_scale": ex["eff_scale"],
            "ident": torch.tensor([self.decode_ident(ex["image"][i]) for i in range(n)]),
            "shape": torch.tensor([list(ex["image"][i].shape[-2:]) for i in range(n)]),
        }
        if "instances" in ex:
            out["instances"] = ex["instances"]
        return [out]


class patched:
    """Temporarily replace module attributes (restored even on SimAbort)."""

    def __init__(self, *triples):
        self.triples = triples
        self.saved = []

    def __enter__(self):
        for obj, name, val in self.triples:
            self.saved.append((obj, name, getattr(obj, name)))
            setattr(obj, name, val)
        return self

    def __exit__(self, *a):
        for obj, name, val in reversed(self.saved):
            setattr(obj, name, val)
        return False


def make_sim(plan, choices, step_cap):
    sc = plan.get("sched", {})
    cs = ChoiceSource(
        rng=random.Random(plan.get("seed", 0) ^ 0x5EED) if choices is None else None,
        recorded=choices,
    )
    stalls = [f for f in plan.get("faults", []) if f["kind"] == "stall"]
    sim = Sim(
        cs,
        strategy=sc.get("strategy", "uniform"),
        switch_p=sc.get("switch_p", 0.3),
        step_cap=step_cap,
        expire_deadlines_early=bool(stalls) or sc.get("expire_early", False),
        trace_files=("sleap_nn/data/providers.py",),
        trace_funcs=("_predict_generator",),
        fine=sc.get("fine", False),
    )
    for f in stalls:
        sim.pending_stalls.append(
            {"task": f["task"], "at_step": f["at_step"], "dur_us": f["dur_us"]}
        )
    return sim


def run_consumer(sim, predictor, reader_task_name="reader"):
    """Drive predictor._predict_generator() as the 'consumer' task. Returns (records, end)."""
    records = []
    end = "ok"
    err = None
    sim_sleep = sim.sleep
    real_sleep = _time.sleep

    def fake_sleep(s):
        if sim._me() is not None:
            sim_sleep(s)
        else:
            real_sleep(s)

    with patched((_time, "sleep", fake_sleep)):
        try:
            gen = predictor._predict_generator()
            for rec in gen:
                records.append(rec)
                sim.yield_point("record", None)
        except SimAbort:
            end = "aborted"
        except HarnessError:
            raise
        except BaseException as e:  # the consumer raised: recorded, judged by the oracle
            end = "exception"
            err = f"{type(e).__name__}: {e}"
        try:
            sim.finish()
        except SimAbort:
            pass
    return records, end, err
