"""A simulated `concurrent.futures.ThreadPoolExecutor`.

If the code under test hands work to a thread pool (none does on the pinned tree, but a contributor adding
`ThreadPoolExecutor().map(...)` to speed something up is the classic way a data race gets in), the pool's workers are
real threads scheduled by the baton scheduler: exactly one runs at a time, every source line of sleap_nn executed by a
worker is a pre-emption point, and the interleaving is decided by the run's ChoiceSource, so a racy interleaving is
found by seed and replays exactly.  With no pool in use this module is completely inert.
"""

import concurrent.futures
import concurrent.futures.thread
import sys
import threading

from simcore.sched import ChoiceSource, Sim, SimAbort


class SimFuture:
    def __init__(self, ex):
        self._ex = ex
        self._done = False
        self._result = None
        self._exc = None

    def done(self):
        return self._done

    def result(self, timeout=None):
        sim = self._ex.sim
        if not self._done:
            sim.block("future.result", lambda: self._done, timeout)
        if not self._done:
            raise concurrent.futures.TimeoutError()
        if self._exc is not None:
            raise self._exc
        return self._result

    def exception(self, timeout=None):
        self.result_or_none(timeout)
        return self._exc

    def result_or_none(self, timeout=None):
        try:
            return self.result(timeout)
        except BaseException:
            return None

    def add_done_callback(self, fn):
        if self._done:
            fn(self)
        else:
            self._ex._callbacks.append((self, fn))

    def cancel(self):
        return False

    def cancelled(self):
        return False

    def running(self):
        return not self._done


class SimExecutor:
    def __init__(self, ctx, max_workers=None, **kw):
        self.ctx = ctx
        self.max_workers = max_workers or 8
        self.sim = Sim(ctx.choices, strategy="uniform", step_cap=400000, fine=True,
                       trace_files=ctx.trace_files, trace_funcs=())
        self.sim.fine_main = False
        self.tasks = []  # FIFO of (future, fn, args, kwargs)
        self.workers = []
        self._callbacks = []
        self._shutdown = False
        self._main_registered = False
        ctx.executors.append(self)

    def _ensure_main(self):
        if not self._main_registered:
            fine = self.sim.fine
            self.sim.fine = False  # the submitting thread is not pre-empted line by line; the workers are
            self.sim.register_main("caller")
            self.sim.fine = fine
            self._main_registered = True

    def _worker(self):
        sim = self.sim
        while True:
            if not self.tasks:
                return
            fut, fn, a, k = self.tasks.pop(0)
            try:
                fut._result = fn(*a, **k)
            except SimAbort:
                raise
            except BaseException as e:  # delivered through the future, like the real pool
                fut._exc = e
            fut._done = True
            sim.yield_point("task_done", None)

    def submit(self, fn, *a, **k):
        if self._shutdown:
            raise RuntimeError("cannot schedule new futures after shutdown")
        self._ensure_main()
        fut = SimFuture(self)
        self.tasks.append((fut, fn, a, k))
        self.ctx.stats["tasks_submitted"] += 1
        live = [w for w in self.workers if self.sim.tasks[w].state != "done"]
        if len(live) < self.max_workers:
            name = f"worker{len(self.workers)}"
            t = threading.Thread(target=self._worker, daemon=True)
            self.sim.adopt_thread(t, name)
            self.workers.append(name)
            self.ctx.stats["workers_started"] += 1
            t.start()
        return fut

    def map(self, fn, *iterables, timeout=None, chunksize=1):
        futs = [self.submit(fn, *args) for args in zip(*iterables)]

        def gen():
            for f in futs:
                yield f.result(timeout)

        return gen()

    def shutdown(self, wait=True, cancel_futures=False):
        self._shutdown = True
        if wait and self._main_registered and self.workers:
            sim = self.sim
            try:
                sim.block("executor.shutdown", lambda: all(sim.tasks[w].state == "done" for w in self.workers), None)
            except SimAbort:
                pass
        self._finish()

    def _finish(self):
        sim = self.sim
        if self._main_registered:
            self.ctx.stats["scheduler_steps"] += sim.step
            self.ctx.stats["switches"] += sim.stats["switches"]
            if sim.failure and self.ctx.failure is None:
                self.ctx.failure = sim.failure
            try:
                sim.teardown()
            except Exception as e:  # noqa
                if self.ctx.failure is None:
                    self.ctx.failure = {"kind": "harness", "detail": repr(e)}
            me = threading.get_ident()
            sim.by_ident.pop(me, None)
            self._main_registered = False

    def __enter__(self):
        return self

    def __exit__(self, *a):
        self.shutdown(wait=True)
        return False


class installed:
    """Context manager: while active, ThreadPoolExecutor (wherever sleap_nn can see it) is the simulated one."""

    def __init__(self, seed=0, choices=None, trace_files=("sleap_nn/",)):
        import random

        self.choices = ChoiceSource(rng=random.Random(seed ^ 0x7EAD) if choices is None else None, recorded=choices)
        self.trace_files = trace_files
        self.executors = []
        self.failure = None
        self.stats = {"tasks_submitted": 0, "workers_started": 0, "scheduler_steps": 0, "switches": 0}
        self._saved = []

    def _factory(self, *a, **k):
        return SimExecutor(self, *a, **k)

    def __enter__(self):
        real = concurrent.futures.thread.ThreadPoolExecutor
        targets = [(concurrent.futures, "ThreadPoolExecutor"), (concurrent.futures.thread, "ThreadPoolExecutor")]
        for name, mod in list(sys.modules.items()):
            if mod is not None and (name == "sleap_nn" or name.startswith("sleap_nn.")) and getattr(mod, "ThreadPoolExecutor", None) is real:
                targets.append((mod, "ThreadPoolExecutor"))
        for obj, attr in targets:
            # concurrent.futures resolves the name lazily through __getattr__: make sure it is materialised first
            self._saved.append((obj, attr, getattr(obj, attr)))
            setattr(obj, attr, self._factory)
        return self

    def __exit__(self, *a):
        for ex in self.executors:
            if ex._main_registered:
                ex.shutdown(wait=True)
        for obj, attr, val in reversed(self._saved):
            setattr(obj, attr, val)
        return False

    @property
    def used(self):
        return self.stats["tasks_submitted"] > 0
