"""Build real Predictor objects around ideal-network stubs and run them through the
simulated inference stream (real reader thread + SimQueue + real _predict_generator)."""

import numpy as np
import torch
from omegaconf import OmegaConf

from simcore.sched import SimQueue, sim_threading
from worlds import dataworld as dw
from worlds import media, stream
from worlds.idealnet import IdealNet

from sleap_nn.data import providers  # noqa: E402
from sleap_nn.inference import predictors as P  # noqa: E402


def scene_lookup(frames):
    """frames: list of dict(k, pts=[(n_nodes,2) lists]). -> {k: [arrays]}"""
    return {f["k"]: [np.array(a, dtype=np.float64) for a in f["animals"]] for f in frames}


def frame_hw(plan, f):
    """Size of the video a frame belongs to (plans may mix two frame sizes: plan['sizes'][vid])."""
    if "sizes" in plan and "vid" in f:
        return tuple(plan["sizes"][f["vid"]])
    return plan["H"], plan["W"]


def make_media(plan, hook=None):
    """Coordinate-carrying frames for every scene frame. Returns (FakeVideo | None, Labels)."""
    dtype = np.uint8 if plan.get("dtype", "uint8") == "uint8" else np.float32

    blob = plan.get("frame_kind") == "blob"

    def render(f):
        H, W = frame_hw(plan, f)
        if blob:
            # one-node animals drawn as Gaussian blobs on a black single-channel float frame
            ys, xs = np.mgrid[0:H, 0:W].astype(np.float64)
            img = np.zeros((H, W), dtype=np.float64)
            sb = plan["blob_sigma"]
            for a in f["animals"]:
                x, y = a[0]
                if x == x and y == y:
                    img = np.maximum(img, np.exp(-((xs - x) ** 2 + (ys - y) ** 2) / (2 * sb * sb)))
            return img[..., None].astype(np.float32)
        fr = dw.coord_frame(H, W, dw.frame_level(f["k"]), np.float64)
        return (fr / 255.0).astype(np.float32) if dtype == np.float32 else fr.astype(np.uint8)

    sk = media.make_skeleton(plan["n_nodes"], [tuple(e) for e in plan.get("edges", [])] or None)
    spec = []
    mixed = "sizes" in plan and len({tuple(x) for x in plan["sizes"]}) > 1
    video = None
    if not mixed:
        H, W = plan["H"], plan["W"]
        arr = [render(f) for f in plan["frames"]]
        arr = np.stack(arr) if arr else np.zeros((0, H, W, 1 if blob else 3), dtype=dtype)
        video = media.FakeVideo(arr, on_read=hook)
    if any("vid" in f for f in plan["frames"]):
        # labels listed in arbitrary order over two videos: (vid, fidx) is the frame's identity
        nv = 2
        nf = max([f.get("fidx", 0) for f in plan["frames"]] + [0]) + 1
        varr = []
        for v in range(nv):
            Hv, Wv = tuple(plan["sizes"][v]) if "sizes" in plan else (plan["H"], plan["W"])
            varr.append(np.zeros((nf, Hv, Wv, 1 if blob else 3), dtype=np.float32 if blob else dtype))
        for f in plan["frames"]:
            varr[f["vid"]][f["fidx"]] = render(f)
        vids = [media.make_mem_video(varr[v], name="project.pkg.slp" if plan.get("same_filename") else f"mem{v}.mp4", on_read=hook) for v in range(nv)]
        for f in plan["frames"]:
            insts = [(np.array(a, dtype="float64"), False) for j, a in enumerate(f["animals"]) if j not in f.get("unlabelled", ())]
            if not insts:
                insts = [(np.full((plan["n_nodes"], 2), np.nan), False)]
            spec.append((f["vid"], f["fidx"], insts))
        labels = media.make_labels(vids, sk, spec)
        return video, labels
    mv = media.make_mem_video(arr, name="mem.mp4", on_read=hook)
    for i, f in enumerate(plan["frames"]):
        insts = [(np.array(a, dtype="float64"), False) for j, a in enumerate(f["animals"]) if j not in f.get("unlabelled", ())]  # the image may show animals the labels lack
        if not insts:
            insts = [(np.full((plan["n_nodes"], 2), np.nan), False)]
        spec.append((0, i, insts))
    labels = media.make_labels([mv], sk, spec)
    return video, labels


def head_cfg(plan, model):
    """OmegaConf training-config stand-in for one model ('single','centroid','centered','bottomup')."""
    m = plan[model]
    heads = {
        "single_instance": {"confmaps": {"output_stride": m["stride"], "anchor_part": None, "part_names": [f"n{i}" for i in range(plan["n_nodes"])]}},
        "centroid": {"confmaps": {"output_stride": m["stride"], "anchor_part": plan.get("anchor")}},
        "centered_instance": {"confmaps": {"output_stride": m["stride"], "anchor_part": plan.get("anchor")}},
        "bottomup": {
            "confmaps": {"output_stride": m["stride"], "part_names": [f"n{i}" for i in range(plan["n_nodes"])]},
            "pafs": {"output_stride": m.get("paf_stride", 1), "edges": [[f"n{a}", f"n{b}"] for a, b in plan.get("edges", [])]},
        },
    }
    return OmegaConf.create(
        {
            "data_config": {"preprocessing": {"scale": m["scale"], "is_rgb": plan.get("frame_kind") != "blob", "max_height": plan["max_hw"][0], "max_width": plan["max_hw"][1],
                                              "crop_hw": plan.get("crop_hw")}},
            "model_config": {"backbone_config": {"unet": {"max_stride": m["max_stride"]}}, "head_configs": heads},
        }
    )


def build_predictor(plan, sim, provider, hook=None, batch=None, max_instances="plan"):
    """Fresh predictor + fresh ideal nets + fresh media for one execution."""
    video, labels = make_media(plan, hook)
    lookup = scene_lookup(plan["frames"])
    sigma = plan.get("sigma", 1.5)
    bs = plan["batch"] if batch is None else batch
    nets = {}
    rgb = plan.get("frame_kind") != "blob"
    prep = OmegaConf.create({"is_rgb": rgb, "max_height": plan["max_hw"][0], "max_width": plan["max_hw"][1], "crop_hw": plan.get("crop_hw"),
                             "anchor_ind": plan.get("anchor")})
    kind = plan["kind"]
    refine = plan.get("refinement")
    if kind == "single":
        net = IdealNet(lookup, "single" if rgb else "blob", plan["single"]["stride"], sigma, plan["n_nodes"])
        nets["single"] = net
        pred = P.SingleInstancePredictor(confmap_config=head_cfg(plan, "single"), confmap_model=net, backbone_type="unet", peak_threshold=0.2,
                                         integral_refinement=refine, integral_patch_size=5, batch_size=bs, preprocess_config=prep)
    elif kind == "topdown":
        cnet = IdealNet(lookup, "centroid" if rgb else "blob", plan["centroid"]["stride"], sigma, plan["n_nodes"], anchor=plan.get("anchor"))
        inet = IdealNet(lookup, "centered" if rgb else "blob", plan["centered"]["stride"], sigma, plan["n_nodes"], anchor=plan.get("anchor"))
        nets["centroid"], nets["centered"] = cnet, inet
        mi = plan.get("max_instances") if max_instances == "plan" else max_instances
        gt = bool(plan.get("gt_centroids"))  # centered-instance model alone: crops come from the labelled centroids (LabelsReader only)
        co = bool(plan.get("centroid_only"))  # centroid model alone: instances are the labelled ones matched to the detected centroids
        pred = P.TopDownPredictor(centroid_config=None if gt else head_cfg(plan, "centroid"), confmap_config=None if co else head_cfg(plan, "centered"), centroid_model=None if gt else cnet,
                                  confmap_model=None if co else inet, centroid_backbone_type="unet", centered_instance_backbone_type="unet", peak_threshold=0.2,
                                  integral_refinement=refine, integral_patch_size=5, batch_size=bs, max_instances=mi, preprocess_config=prep,
                                  anchor_ind=plan.get("anchor"))
    else:
        b = plan["bottomup"]
        net = IdealNet(lookup, "bottomup", b["stride"], sigma, plan["n_nodes"], edges=plan["edges"], paf_stride=b["paf_stride"], paf_sigma=b["paf_sigma"])
        nets["bottomup"] = net
        pred = P.BottomUpPredictor(bottomup_config=head_cfg(plan, "bottomup"), bottomup_model=net, backbone_type="unet", peak_threshold=0.2,
                                   integral_refinement=refine, integral_patch_size=5, batch_size=bs, preprocess_config=prep)
    for net in nets.values():
        net.ringing = set(plan.get("ringing", ()))
    import sleap_io as sio

    pred._initialize_inference_model()  # same order as from_trained_models(): model first, pipeline second
    qf = lambda maxsize=0: SimQueue(maxsize, sim=sim)
    with stream.patched((providers, "Queue", qf), (sio, "load_video", lambda fn, **k: video), (sio, "load_slp", lambda fn, **k: labels)):
        if provider == "video":
            pred.make_pipeline("VideoReader", "fake.mp4", queue_maxsize=plan.get("cap", 4))
        else:
            pred.make_pipeline("LabelsReader", "fake.slp", queue_maxsize=plan.get("cap", 4))
    return pred, nets


def run_predictor(plan, provider, choices=None, batch=None, frames_subset=None, max_instances="plan"):
    """One simulated inference run. Returns (records, end, err, sim, nets)."""
    p = plan
    if frames_subset is not None:
        p = dict(plan)
        p["frames"] = [plan["frames"][i] for i in frames_subset]
    n = len(p["frames"])
    sim = stream.make_sim({"seed": plan.get("seed", 0), "sched": plan.get("sched", {"strategy": "sticky", "switch_p": 0.3}), "faults": plan.get("faults", [])},
                          choices, step_cap=80 * (n + 3) + 400)
    hook = stream.ReadFaults(sim, plan.get("faults", []))
    sim.register_main("consumer")
    with sim_threading(sim):  # locks / events / conditions made by sleap_nn code are the simulator's
        return _run_predictor(p, plan, sim, provider, hook, batch, max_instances)


def _run_predictor(p, plan, sim, provider, hook, batch, max_instances):
    pred, nets = build_predictor(p, sim, provider, hook=hook, batch=batch, max_instances=max_instances)
    if provider != "video" and any("vid" in f for f in p["frames"]):
        vids = pred.pipeline.labels.videos
        pos = {(f["vid"], f["fidx"]): i for i, f in enumerate(p["frames"])}
        hook.key_of = lambda video, idx: pos.get((vids.index(video), idx), -1)
    sim.adopt_thread(pred.pipeline, "reader")
    records, end, err = stream.run_consumer(sim, pred)
    return records, end, err, sim, nets
