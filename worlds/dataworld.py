"""W3 - training data read over and over: synthetic labels, coordinate-carrying frames,
the four Dataset classes (in-memory / npz), pristine reference copies.

Coordinate-carrying frames: channel 0 = x+8, channel 1 = y+8 (integer grey levels),
channel 2 = a per-frame constant level >= 40 (padding decodes as 0 = invalid).  Linear
ramps stay linear under bilinear resize / crop / affine warps, so an output image tells
where each of its pixels came from.
"""

import copy
import math
import random

import numpy as np
import torch
from omegaconf import OmegaConf

from worlds import media

OFFSET = 8


def coord_frame(H, W, level, dtype=np.uint8):
    ys, xs = np.mgrid[0:H, 0:W]
    img = np.zeros((H, W, 3), dtype=np.float64)
    img[..., 0] = xs + OFFSET
    img[..., 1] = ys + OFFSET
    img[..., 2] = level
    return img.astype(dtype)


def frame_level(k):
    return 40 + 9 * (k % 24)


def gen_scene(rng, *, single=False, max_frames=4, max_animals=3, allow_empty_inst=True, allow_pred=True,
              min_hw=40, max_hw=120, two_videos_p=0.3, nan_p=0.25, empty_frames=False, wide_p=0.0):
    """A JSON-able description of a tiny labelled project."""
    n_nodes = rng.choice([2, 3, 4, 5])
    # random tree skeleton with random edge listing
    edges = []
    for j in range(1, n_nodes):
        edges.append([rng.randrange(0, j), j])
    rng.shuffle(edges)
    n_videos = 2 if rng.random() < two_videos_p else 1
    sizes = []
    for v in range(n_videos):
        sizes.append([rng.randint(min_hw, max_hw), rng.randint(min_hw, max_hw)])
        if wide_p and rng.random() < wide_p:  # a strip: one side several times the other (rounding of the short side matters)
            strip = [rng.randint(28, 44), rng.randint(160, 250)]  # coord_frame codes coordinates in 8 bits: stay below 256
            sizes[-1] = strip if rng.random() < 0.7 else strip[::-1]
    n_frames = rng.randint(1, max_frames)
    frames = []
    used = set()
    # labels clicked at whole (or half) pixels, as GUI-made labels often are: crop boxes then sit exactly on the pixel grid
    grid = rng.choice([None, None, None, 1.0, 0.5])

    def snap(v):
        return round(v, 2) if grid is None else round(v / grid) * grid
    for f in range(n_frames):
        v = rng.randrange(n_videos)
        fi = rng.randrange(0, 6)
        while (v, fi) in used:
            fi = rng.randrange(0, 12)
        used.add((v, fi))
        H, W = sizes[v]
        k = 1 if single else rng.randint(1, max_animals)
        insts = []
        for a in range(k):
            cx, cy = rng.uniform(10, W - 11), rng.uniform(10, H - 11)
            pts = []
            for j in range(n_nodes):
                x = min(max(cx + rng.uniform(-9, 9), 1.0), W - 2.0)
                y = min(max(cy + rng.uniform(-9, 9), 1.0), H - 2.0)
                pts.append([snap(x), snap(y)])
            if rng.random() < 0.1:
                # an animal hugging the right or bottom frame border: every node within the last few pixel columns / rows
                ax = rng.randrange(2)
                lim = (W if ax == 0 else H)
                for q in pts:
                    q[ax] = snap(rng.uniform(lim - 5.0, lim - 2.0))
            if rng.random() < nan_p:
                order = list(range(n_nodes))
                rng.shuffle(order)
                for j in order[: rng.randint(1, n_nodes - 1)]:
                    pts[j] = [float("nan"), float("nan")]
            pred = allow_pred and rng.random() < 0.15
            insts.append({"pts": pts, "pred": pred})
        if allow_empty_inst and not single and rng.random() < 0.2:
            insts.insert(rng.randrange(len(insts) + 1), {"pts": [[float("nan")] * 2] * n_nodes, "pred": False})
        # a frame must keep at least one non-empty user instance to be realistic for user_instances_only
        if all(i["pred"] for i in insts):
            insts[0]["pred"] = False
        for i in insts:
            # as in real .slp files: a node toggled "not visible" keeps the coordinates it was placed at
            if rng.random() < 0.3 and any(p[0] != p[0] for p in i["pts"]) and any(p[0] == p[0] for p in i["pts"]):
                i["hidden"] = {str(j): [round(rng.uniform(2, W - 3), 2), round(rng.uniform(2, H - 3), 2)] for j, p in enumerate(i["pts"]) if p[0] != p[0]}
        frames.append({"video": v, "frame_idx": fi, "instances": insts})
    if empty_frames and len(frames) >= 2 and rng.random() < 0.3:
        # a labelled frame that holds nothing but an empty instance (it yields no sample) - listed before populated frames
        j = rng.randrange(0, len(frames) - 1)
        frames[j]["instances"] = [{"pts": [[float("nan")] * 2] * n_nodes, "pred": False}]
    sc = {"n_nodes": n_nodes, "edges": edges, "sizes": sizes, "frames": frames, "n_video_frames": 12}
    if n_videos > 1 and rng.random() < 0.3:
        sc["same_filename"] = True  # videos embedded in one package file share its file name
    return sc


def build_labels(scene, dtype=np.uint8, on_read=None):
    vids = []
    for v, (H, W) in enumerate(scene["sizes"]):
        arr = np.stack([coord_frame(H, W, frame_level(v * 12 + k), dtype) for k in range(scene["n_video_frames"])], axis=0)
        vids.append(media.make_mem_video(arr, name="project.pkg.slp" if scene.get("same_filename") else f"mem{v}.mp4", on_read=on_read))
    sk = media.make_skeleton(scene["n_nodes"], [tuple(e) for e in scene["edges"]])
    spec = []
    for fr in scene["frames"]:
        spec.append((fr["video"], fr["frame_idx"], [(np.array(i["pts"], dtype="float64"), i["pred"]) for i in fr["instances"]]))
    labels = media.make_labels(vids, sk, spec)
    for lf, fr in zip(labels.labeled_frames, scene["frames"]):
        for inst, i in zip(lf.instances, fr["instances"]):
            for j, xy in (i.get("hidden") or {}).items():
                inst.points["xy"][int(j)] = xy  # invisible node with stored coordinates: inst.numpy() still says NaN
                inst.points["visible"][int(j)] = False
    return labels


def data_config(is_rgb=True, user_instances_only=True, aug=None):
    d = {
        "user_instances_only": user_instances_only,
        "preprocessing": {"is_rgb": is_rgb},
        "augmentation_config": aug or {},
    }
    return OmegaConf.create(d)


def build_dataset(kind, labels, cfg, np_chunks=False, np_chunks_path=None, use_existing_chunks=False):
    from sleap_nn.data import custom_datasets as cd

    dc = data_config(cfg["is_rgb"], cfg.get("user_instances_only", True), cfg.get("aug"))
    common = dict(
        labels=labels, data_config=dc, max_stride=cfg["max_stride"], scale=cfg["scale"], apply_aug=bool(cfg.get("apply_aug")),
        max_hw=tuple(cfg["max_hw"]), np_chunks=np_chunks, np_chunks_path=np_chunks_path, use_existing_chunks=use_existing_chunks,
    )
    cm = OmegaConf.create({"sigma": cfg["sigma"], "output_stride": cfg["output_stride"], "anchor_part": cfg.get("anchor")})
    if kind == "single":
        return cd.SingleInstanceDataset(confmap_head_config=cm, **common)
    if kind == "centroid":
        return cd.CentroidDataset(confmap_head_config=cm, **common)
    if kind == "centered":
        return cd.CenteredInstanceDataset(confmap_head_config=cm, crop_hw=tuple(cfg["crop_hw"]), **common)
    if kind == "bottomup":
        pf = OmegaConf.create({"sigma": cfg["paf_sigma"], "output_stride": cfg["paf_stride"]})
        return cd.BottomUpDataset(confmap_head_config=cm, pafs_head_config=pf, **common)
    raise ValueError(kind)


def gen_ds_cfg(rng, scene, kind, scale_one=False):
    Hm = max(s[0] for s in scene["sizes"])
    Wm = max(s[1] for s in scene["sizes"])
    max_stride = rng.choice([1, 2, 4, 8, 16])
    ostride = rng.choice([s for s in (1, 2, 4, 8) if s <= max(max_stride, 1)] or [1])
    scale = 1.0 if scale_one else rng.choice([1.0, 1.0, 0.5, 0.75, 1.25])
    cfg = {
        "is_rgb": True,
        "max_stride": max_stride,
        "scale": scale,
        "max_hw": [Hm, Wm],
        "sigma": rng.choice([1.0, 1.5, 2.5]),
        "output_stride": ostride,
        "anchor": rng.choice([None] + list(range(scene["n_nodes"]))),
        "paf_sigma": rng.choice([2.0, 4.0]),
        "paf_stride": rng.choice([s for s in (1, 2, 4, 8) if s <= max(max_stride, 1)] or [1]),
        "crop_hw": [rng.choice([16, 24, 32, 48])] * 2,
        "user_instances_only": rng.random() < 0.75,  # False: predicted instances are training data too
    }
    if rng.random() < 0.3:
        # a user-supplied max size different from the data's (size matching up or down)
        cfg["max_hw"] = [rng.randint(32, 160), rng.randint(32, 160)]
    if kind == "centered":
        ms = max_stride
        cfg["crop_hw"] = [int(math.ceil(cfg["crop_hw"][0] / ms) * ms)] * 2
        if rng.random() < 0.3:
            # a user-given crop size: (height, width), not necessarily square nor a multiple of max_stride (the crop is stride-padded)
            cfg["crop_hw"] = [rng.choice([18, 20, 28, 36, 44]), rng.choice([18, 20, 28, 36, 44])]
    return cfg


def stale_scene(scene):
    """The same project as it looked before the user edited it: keypoints elsewhere, other nodes missing (same number of
    samples, so every stale file has a namesake that must be overwritten)."""
    sc = copy.deepcopy(scene)
    for f in sc["frames"]:
        H, W = sc["sizes"][f["video"]]
        for i in f["instances"]:
            i.pop("hidden", None)
            vis = [j for j, p in enumerate(i["pts"]) if p[0] == p[0]]
            if not vis:
                continue  # an empty instance stays empty: the number of samples must not change
            i["pts"] = [[min(max(p[0] + 4.0, 1.0), W - 2.0), min(max(p[1] - 3.0, 1.0), H - 2.0)] if p[0] == p[0] else [min(7.0 + j, W - 2.0), 9.0] for j, p in enumerate(i["pts"])]
            if len(vis) > 1:
                i["pts"][vis[0]] = [float("nan"), float("nan")]
    return sc


# ------------------------------------------------------------------ snapshots
def snapshot_labels(labels):
    """Pristine copies of every point array reachable from the labels, keyed by object identity."""
    snap = []
    for lf in labels.labeled_frames:
        for inst in list(lf.instances):
            snap.append((inst, np.array(inst.numpy(), copy=True), np.array(inst.points["xy"], copy=True), np.array(inst.points["visible"], copy=True)))
    return snap


def labels_changed(snap):
    for inst, arr, raw, vis in snap:
        now = inst.numpy()
        if now.shape != arr.shape or not np.array_equal(now, arr, equal_nan=True):
            return f"instance points changed from {arr.tolist()} to {now.tolist()}"
        if not np.array_equal(inst.points["xy"], raw, equal_nan=True) or not np.array_equal(inst.points["visible"], vis):
            return f"stored coordinates / visibility changed from {raw.tolist()} {vis.tolist()} to {inst.points['xy'].tolist()} {inst.points['visible'].tolist()}"
    return None


def clone_sample(s):
    out = {}
    for k, v in s.items():
        if isinstance(v, torch.Tensor):
            out[k] = v.clone()
        elif isinstance(v, np.ndarray):
            out[k] = v.copy()
        else:
            out[k] = copy.deepcopy(v)
    return out


def sample_diff(a, b, atol=0.0):
    """First difference between two sample dicts (NaN-aware), or None."""
    if set(a) != set(b):
        return f"keys differ: {sorted(a)} vs {sorted(b)}"
    for k in sorted(a):
        x, y = a[k], b[k]
        if isinstance(x, torch.Tensor) or isinstance(y, torch.Tensor):
            x = torch.as_tensor(x)
            y = torch.as_tensor(y)
            if x.shape != y.shape:
                return f"{k}: shape {tuple(x.shape)} vs {tuple(y.shape)}"
            xf, yf = x.double(), y.double()
            nx, ny = torch.isnan(xf), torch.isnan(yf)
            if not torch.equal(nx, ny):
                return f"{k}: NaN pattern differs"
            d = (torch.nan_to_num(xf) - torch.nan_to_num(yf)).abs()
            if d.numel() and float(d.max()) > atol:
                idx = int(torch.argmax(d))
                return f"{k}: max abs diff {float(d.max()):.6g} at flat index {idx} ({float(xf.flatten()[idx])} vs {float(yf.flatten()[idx])})"
        else:
            if x != y:
                return f"{k}: {x!r} vs {y!r}"
    return None
