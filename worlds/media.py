"""In-memory media: the 'disk' of the simulated inference / training-data worlds.

FakeVideo   - duck-typed video for VideoReader (it only touches .shape and [idx]).
MemVideo    - a real sleap_io.Video whose backend reads from an array, for Labels.
Both call an optional `on_read(video, idx)` hook before returning a frame; that hook is
where the simulator schedules and injects read faults.
"""

import attrs
import numpy as np
import sleap_io as sio
from sleap_io.io.video_reading import VideoBackend


class FakeVideo:
    def __init__(self, frames, on_read=None, name="fake.mp4"):
        self.frames = frames  # (N,H,W,C) ndarray or list of (H,W,C)
        self.on_read = on_read
        self.filename = name
        self.backend = None

    @property
    def shape(self):
        f0 = self.frames[0] if len(self.frames) else np.zeros((0, 0, 1))
        return (len(self.frames),) + tuple(f0.shape)

    def __len__(self):
        return len(self.frames)

    def __getitem__(self, idx):
        if not (0 <= int(idx) < len(self.frames)):
            raise IndexError(f"Frame index {idx} out of range.")
        if self.on_read is not None:
            r = self.on_read(self, int(idx))
            if r is not None:
                return r
        return np.array(self.frames[int(idx)], copy=True)


@attrs.define
class MemBackend(VideoBackend):
    data: np.ndarray = None
    on_read: object = None
    owner: object = None

    @property
    def num_frames(self):
        return int(self.data.shape[0])

    @property
    def img_shape(self):
        return tuple(int(x) for x in self.data.shape[1:])

    def read_test_frame(self):
        return self.data[0]

    def _read_frame(self, frame_idx):
        if self.on_read is not None:
            r = self.on_read(self.owner, int(frame_idx))
            if r is not None:
                return r
        return np.array(self.data[int(frame_idx)], copy=True)

    def _read_frames(self, frame_inds):
        return np.stack([self._read_frame(i) for i in frame_inds], axis=0)


class MemVideo(sio.Video):
    """sio.Video that never touches the disk."""

    @property
    def is_open(self):
        return True

    def exists(self, *a, **k):
        return True

    def open(self, *a, **k):
        return None

    def close(self):
        return None

    def __deepcopy__(self, memo):
        memo[id(self)] = self
        return self


def make_mem_video(frames, name="mem.mp4", on_read=None):
    frames = np.asarray(frames)
    be = MemBackend(filename=name, grayscale=(frames.shape[-1] == 1), data=frames, on_read=on_read)
    v = MemVideo(filename=name, backend=be, open_backend=False)
    be.owner = v
    return v


def make_skeleton(n_nodes, edges=None):
    names = [f"n{i}" for i in range(n_nodes)]
    if edges is None:
        edges = [(i, i + 1) for i in range(n_nodes - 1)]
    return sio.Skeleton(nodes=names, edges=[(names[a], names[b]) for a, b in edges])


def make_labels(videos, skeleton, frames_spec, predicted=False):
    """frames_spec: list of (video_idx, frame_idx, [ (points (n,2) array, is_predicted) ... ])."""
    lfs = []
    for vi, fi, insts in frames_spec:
        objs = []
        for pts, pred in insts:
            pts = np.asarray(pts, dtype="float64")
            if pred:
                objs.append(
                    sio.PredictedInstance.from_numpy(
                        points_data=pts,
                        skeleton=skeleton,
                        point_scores=np.ones(len(pts)),
                        score=1.0,
                    )
                )
            else:
                objs.append(sio.Instance.from_numpy(points_data=pts, skeleton=skeleton))
        lfs.append(sio.LabeledFrame(video=videos[vi], frame_idx=int(fi), instances=objs))
    return sio.Labels(videos=list(videos), skeletons=[skeleton], labeled_frames=lfs)
