"""W2 - the tracker fed frame after frame by a simulated scene + sensor model.

A plan carries the explicit per-frame detection lists (so shrinking = dropping frames /
detections).  `run_history` feeds them to the real Tracker and evaluates the C09
conservation oracle after every call; it also returns the (animal -> track name)
observations C10 needs.
"""

import traceback

import numpy as np
import sleap_io as sio

from worlds.media import make_skeleton

from sleap_nn.tracking.tracker import Tracker  # noqa: E402

COMBOS = [
    ("keypoints", "oks"),
    ("centroids", "euclidean_dist"),
    ("bboxes", "iou"),
]


def gen_cfg(rng, K):
    feat, score = rng.choice(COMBOS)
    return {
        "candidates_method": rng.choice(["fixed_window", "local_queues"]),
        "track_matching_method": rng.choice(["hungarian", "greedy"]),
        "features": feat,
        "scoring_method": score,
        "scoring_reduction": rng.choice(["mean", "max"]),
        "window_size": rng.choice([1, 2, 3, 4, 5, 8]),
        "instance_score_threshold": rng.choice([0.0, 0.0, 0.3, 0.7]),
        "max_tracks": None,
    }


def shape_offsets(rng, n_nodes, size, degenerate=None):
    """A rigid-ish body: node offsets around the animal's centre."""
    offs = []
    for j in range(n_nodes):
        offs.append([round(rng.uniform(-size, size), 2), round(rng.uniform(-size, size), 2)])
    if n_nodes >= 2:
        # make sure the body has a non-degenerate bounding box
        offs[0] = [-size, -size]
        offs[1] = [size, size]
    if degenerate == "vertical":
        offs = [[0.0, o[1]] for o in offs]  # every node on one vertical line: zero-width bounding box
    elif degenerate == "horizontal":
        offs = [[o[0], 0.0] for o in offs]
    return offs


def _where(tb):
    """Innermost sleap_nn frame of a traceback: file:function."""
    loc = "?"
    for fs in traceback.extract_tb(tb):
        if "sleap_nn" in fs.filename:
            loc = fs.filename.split("sleap_nn/")[-1] + ":" + fs.name
    return loc


def run_history(plan, n_trackers=1):
    """Returns dict(violations, obs, stats). obs[t] = list of (animal, track_name or None) per frame."""
    cfg = plan["cfg"]
    thr = cfg["instance_score_threshold"]
    sk = make_skeleton(plan["n_nodes"])
    trackers = [Tracker.from_config(**cfg) for _ in range(n_trackers)]
    trackers[0]._track_objects.clear()
    violations = []
    obs = [[] for _ in range(n_trackers)]
    events = []
    stats = {"calls": 0, "detections": 0, "stale_col": 0, "new_tracks": 0, "max_tracks_seen": 0}

    def V(kind, where, detail):
        violations.append({"kind": kind, "sig": f"{kind}:{cfg['candidates_method']}:{where}", "detail": detail})

    numbers = plan.get("frame_idx") or []
    for pos, dets in enumerate(plan["frames"]):
        fi = numbers[pos] if pos < len(numbers) else (numbers[-1] + 1 + pos - len(numbers) if numbers else pos)
        for ti, tr in enumerate(trackers):
            insts = []
            for d in dets:
                pts = np.array(d["pts"], dtype="float64")
                insts.append(
                    sio.PredictedInstance.from_numpy(
                        points_data=pts, skeleton=sk, point_scores=np.ones(len(pts)), score=float(d["score"])
                    )
                )
            stats["calls"] += 1
            stats["detections"] += len(insts)
            try:
                out = tr.track(insts, frame_idx=fi)
            except Exception as e:
                import sys

                where = f"{type(e).__name__}@{_where(sys.exc_info()[2])}"
                V("crash", where, f"track() raised {type(e).__name__}: {e} on frame {fi} (tracker {ti}) with {len(insts)} detections; cfg={cfg}")
                return {"violations": violations, "obs": obs, "stats": stats, "events": events}
            ids_in = {id(x): k for k, x in enumerate(insts)}
            seen = set()
            row = []
            if not isinstance(out, list):
                V("bad_return", "type", f"track() returned {type(out).__name__}, not a list (frame {fi})")
                return {"violations": violations, "obs": obs, "stats": stats, "events": events}
            for o in out:
                k = ids_in.get(id(o))
                if k is None:
                    V("invented", "not-an-input", f"frame {fi}: track() returned an instance it was not given; cfg={cfg}")
                    break
                if k in seen:
                    V("duplicated", "returned-twice", f"frame {fi}: detection #{k} returned twice; cfg={cfg}")
                    break
                seen.add(k)
            if violations:
                break
            tracks_used = {}
            for k, (d, inst) in enumerate(zip(dets, insts)):
                present = k in seen
                tname = inst.track.name if inst.track is not None else None
                row.append((d["animal"], tname if present else "<dropped>"))
                if d["score"] > thr:
                    if not present:
                        V("dropped", "above-threshold-not-returned",
                          f"frame {fi}: detection #{k} (animal {d['animal']}, score {d['score']} > threshold {thr}) was not returned; "
                          f"returned {len(out)} of {len(insts)}; cfg={cfg}")
                        break
                    if inst.track is None:
                        V("untracked", "above-threshold-no-track",
                          f"frame {fi}: detection #{k} (animal {d['animal']}, score {d['score']} > threshold {thr}) returned without a track; cfg={cfg}")
                        break
                if present and inst.track is not None:
                    if tname in tracks_used:
                        V("double_assigned", "same-track-twice-in-frame",
                          f"frame {fi}: detections #{tracks_used[tname]} and #{k} both carry track {tname}; cfg={cfg}")
                        break
                    tracks_used[tname] = k
            obs[ti].append(row)
            try:
                ct = tr.candidate.current_tracks
                stats["max_tracks_seen"] = max(stats["max_tracks_seen"], len(ct))
            except Exception:
                pass
            if violations:
                break
        if violations:
            break
    return {"violations": violations, "obs": obs, "stats": stats, "events": events}
