#!/bin/sh
# usage: tools_sweep.sh <tier> <seed> [props...]  - runs checks sequentially, prints one line per check
tier=$1; seed=$2; shift 2
props=${@:-C02 C03 C04 C09 C10 C11 C12 C13 C14 C18 C19}
export VERIF_EVIDENCE_DIR=/dev/shm/verif-sweep-$seed-$tier/evidence VERIF_REPLAY_DIR=/dev/shm/verif-sweep-$seed-$tier/replays
mkdir -p $VERIF_EVIDENCE_DIR $VERIF_REPLAY_DIR
for p in $props; do
  VERIF_SEED=$seed ./check $p --tier $tier > /dev/shm/verif-sweep-$seed-$tier/$p.log 2>&1; rc=$?
  echo "seed=$seed tier=$tier $p exit=$rc $(grep -E '^\[C..\] [0-9]+ runs' /dev/shm/verif-sweep-$seed-$tier/$p.log | cut -c1-160)"
  grep -E "VIOLATION|HARNESS-ERROR|classes seen" /dev/shm/verif-sweep-$seed-$tier/$p.log | cut -c1-400
done
