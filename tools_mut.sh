#!/bin/sh
# usage: tools_mut.sh <file-relative-to-repo> <python-expr-old> <python-expr-new> <PROP> [runs]
# makes a scratch copy of /repo/sleap_nn under /dev/shm/mut, applies a textual mutation, runs the check, removes the copy
set -e
rm -rf /dev/shm/mut; mkdir -p /dev/shm/mut; cp -r /repo/sleap_nn /dev/shm/mut/; mkdir -p /dev/shm/mut/tests; cp -r /repo/tests/assets /dev/shm/mut/tests/ 2>/dev/null || true
python3 - "$1" "$2" "$3" <<'PY'
import sys
p='/dev/shm/mut/'+sys.argv[1]; s=open(p).read(); old=sys.argv[2].encode().decode('unicode_escape'); new=sys.argv[3].encode().decode('unicode_escape')
assert s.count(old)>=1, 'pattern not found'
open(p,'w').write(s.replace(old,new,1))
PY
cd /verif; VERIF_REPO=/dev/shm/mut VERIF_RUNS=${5:-3000} timeout 900 ./check $4 2>&1 | grep -E "VIOLATION|HARNESS|classes seen|runs," | cut -c1-600
rm -rf /dev/shm/mut
