"""C04 - images and keypoints stay registered through all geometric preprocessing."""

import copy
import os
import shutil
import hashlib
import math
import random

import numpy as np
import torch

from worlds import dataworld as dw

from sleap_nn.data.augmentation import apply_geometric_augmentation, apply_intensity_augmentation  # noqa: E402
from sleap_nn.data.instance_cropping import find_instance_crop_size, generate_crops  # noqa: E402
from sleap_nn.data.resizing import apply_pad_to_stride, apply_resizer, apply_sizematcher  # noqa: E402

ID = "C04"
LEVEL = "exploration"
RULE = (
    "one run = one seeded scene with coordinate-carrying frames (channel0=x+8, channel1=y+8, channel2=frame level) and "
    "either (a) a chain of functional-API steps (size matching, rescale, stride padding, crop, affine / intensity "
    "augmentation with a seeded RNG state) or (b) a Dataset class read end to end with augmentation ON under seeded RNG "
    "jumps; oracle: the output image decoded at each output keypoint returns the original keypoint within the derived "
    "tolerance, output sizes are exactly the requested ones, padding only bottom/right, intensity-only augmentation "
    "leaves keypoints bit-identical. Non-trivial = at least one keypoint decoded after a geometry-changing step; "
    "distinct = digest of (mode, step kinds with parameter classes / dataset kind+config class, sizes)"
)
COMPONENTS = {
    "real": ["apply_sizematcher, apply_resizer/resize_image, apply_pad_to_stride, generate_crops/make_centered_bboxes",
             "apply_geometric_augmentation / apply_intensity_augmentation (kornia)", "find_instance_crop_size",
             "SingleInstance/Centroid/CenteredInstance/BottomUp Dataset.__getitem__ with augmentation on"],
    "stub": ["video -> in-memory coordinate-carrying frames", "randomness -> torch global generator seeded from the run seed, moved by rng_jump operations"],
}
ASSUMPTIONS = [
    "tolerance = (1 + rho + 0.5|1-s|)/s + 0.6 original pixels: the statement's one output pixel, size-rounding rho<=1 per resize stage "
    "(int()/round() of image sizes vs exact coordinate scaling), the half-pixel convention gap of keypoints*scale, and 0.6 px decode slack",
    "only keypoints whose 2x2 neighbourhood in the output is image content (not padding, and not blended with padding by more than 0.3 px worth) are decoded",
    "in-memory datasets only (8-bit PIL quantisation of the npz path is C18's business)",
]
TIERS = {
    "quick": {"runs": 14000, "time_cap_s": 80, "chunk": 50, "det_inproc": 6, "det_fresh": 4, "minimise_s": 60},
    "thorough": {"runs": 400000, "time_cap_s": 1200, "chunk": 100, "det_inproc": 30, "det_fresh": 15, "minimise_s": 180},
}
STEPS = ["sizematcher", "resizer", "pad", "crop", "affine", "intensity"]


def gen_plan(rng, index, tier):
    mode = "dataset" if (index % 3 == 2) else "chain"
    scene = dw.gen_scene(rng, single=False, max_frames=3 if mode == "dataset" else 2, max_animals=2, allow_empty_inst=False, allow_pred=False,
                         min_hw=40, max_hw=140, two_videos_p=0.3 if mode == "dataset" else 0.0, nan_p=0.2, empty_frames=(mode == "dataset"),
                         wide_p=0.0)
    plan = {"mode": mode, "scene": scene}
    if mode == "chain":
        steps = []
        kinds = []
        if rng.random() < 0.6:
            kinds.append("sizematcher")
        if rng.random() < 0.6:
            kinds.append("resizer")
        if rng.random() < 0.5:
            kinds.append("pad")
        tail = rng.choice([None, "crop", "affine", "intensity", "crop+affine"])
        if tail:
            kinds += tail.split("+")
        if not kinds:
            kinds = [rng.choice(STEPS)]
        if index < len(STEPS):
            kinds = [STEPS[index]]
        for k in kinds:
            if k == "sizematcher":
                steps.append({"k": k, "mh": rng.choice([None, rng.randint(32, 200)]), "mw": rng.choice([None, rng.randint(32, 200)])})
            elif k == "resizer":
                steps.append({"k": k, "scale": rng.choice([0.5, 0.75, 1.25, 2.0, round(rng.uniform(0.4, 2.0), 2)])})
            elif k == "pad":
                steps.append({"k": k, "stride": rng.choice([2, 4, 8, 16, 32])})
            elif k == "crop":
                steps.append({"k": k, "size": [rng.choice([16, 24, 32, 48, 64]), rng.choice([16, 24, 32, 48, 64])], "inst": rng.randrange(4),
                              "edge": rng.random() < 0.3})
            elif k == "affine":
                steps.append({"k": k, "rotation": rng.choice([0.0, 15.0, 45.0, 180.0]), "scale": rng.choice([None, [0.8, 1.2], [0.9, 1.1, 0.7, 1.3]]),
                              "tw": rng.choice([0.0, 0.05, 0.2]), "th": rng.choice([0.0, 0.05, 0.2]), "rng": rng.randrange(1 << 30)})
            else:
                steps.append({"k": k, "rng": rng.randrange(1 << 30), "which": rng.sample(["uniform", "gauss", "contrast", "bright"], rng.randint(1, 4))})
        plan["steps"] = steps
        plan["frame"] = rng.randrange(8)
    else:
        kind = rng.choice(["single", "centroid", "centered", "bottomup"])
        if kind == "single":
            scene = dw.gen_scene(rng, single=True, max_frames=2, allow_empty_inst=False, allow_pred=False, min_hw=40, max_hw=140, nan_p=0.2)
            plan["scene"] = scene
        cfg = dw.gen_ds_cfg(rng, scene, kind)
        aug = {}
        which = rng.choice(["geometric", "geometric", "intensity", "both_off"])
        if which == "geometric":
            aug["geometric"] = {"rotation": rng.choice([0.0, 15.0, 90.0, 180.0]), "scale": rng.choice([None, [0.9, 1.1]]),
                                "translate_width": rng.choice([0.0, 0.05]), "translate_height": rng.choice([0.0, 0.05]), "affine_p": 1.0}
        elif which == "intensity":
            aug["intensity"] = {"uniform_noise_p": 1.0, "contrast_p": 1.0, "brightness": 0.2, "brightness_p": 1.0}
        cfg["aug"] = aug
        cfg["apply_aug"] = which != "both_off"
        plan["ds"] = {"kind": kind, "cfg": cfg, "aug_kind": which, "npz": rng.random() < 0.25, "stale_dir": rng.random() < 0.6}
        plan["ops"] = [{"op": rng.choice(["get", "get", "get", "rng_jump"]), "i": rng.randrange(8), "seed": rng.randrange(1 << 30)} for _ in range(rng.randint(2, 8))]
    return plan


def describe(plan):
    d = {"mode": plan["mode"], "sizes": plan["scene"]["sizes"]}
    if plan["mode"] == "chain":
        d["steps"] = plan["steps"]
    else:
        d["ds"] = {k: plan["ds"]["cfg"][k] for k in ("scale", "max_stride", "max_hw", "crop_hw", "anchor")}
        d["ds"]["kind"] = plan["ds"]["kind"]
        d["ds"]["aug"] = plan["ds"]["aug_kind"]
        d["ops"] = [o["op"] for o in plan["ops"]]
    return d


def shrink(plan):
    if plan["mode"] == "chain":
        st = plan["steps"]
        for i in range(len(st)):
            if len(st) > 1:
                p = copy.deepcopy(plan)
                del p["steps"][i]
                yield p
        for i, s in enumerate(st):
            if s["k"] == "affine":
                for k, v in (("scale", None), ("tw", 0.0), ("th", 0.0), ("rotation", 0.0)):
                    if s[k] != v:
                        p = copy.deepcopy(plan)
                        p["steps"][i][k] = v
                        yield p
            if s["k"] == "sizematcher":
                for k in ("mh", "mw"):
                    if s[k] is not None:
                        p = copy.deepcopy(plan)
                        p["steps"][i][k] = None
                        yield p
    else:
        ops = plan["ops"]
        for i in range(len(ops)):
            if len(ops) > 1:
                p = copy.deepcopy(plan)
                del p["ops"][i]
                yield p
        for k in ("stale_dir", "npz"):
            if plan["ds"].get(k):
                p = copy.deepcopy(plan)
                p["ds"][k] = False
                if k == "npz":
                    p["ds"]["stale_dir"] = False
                yield p
        c = plan["ds"]["cfg"]
        for k, v in (("scale", 1.0), ("max_stride", 1)):
            if c[k] != v:
                p = copy.deepcopy(plan)
                p["ds"]["cfg"][k] = v
                yield p
        mh = [max(s[0] for s in plan["scene"]["sizes"]), max(s[1] for s in plan["scene"]["sizes"])]
        if c["max_hw"] != mh:
            p = copy.deepcopy(plan)
            p["ds"]["cfg"]["max_hw"] = mh
            yield p
    fr = plan["scene"]["frames"]
    if len(fr) > 1:
        for i in range(len(fr)):
            p = copy.deepcopy(plan)
            del p["scene"]["frames"][i]
            yield p
    for i, f in enumerate(fr):
        if len(f["instances"]) > 1:
            for j in range(len(f["instances"])):
                p = copy.deepcopy(plan)
                del p["scene"]["frames"][i]["instances"][j]
                yield p


# ------------------------------------------------------------------ decoding
def decode(img, pts, level, lvl_tol=2.0):
    """img (3,H,W) float in [0,1]; pts (n,2) output coords -> (orig xy (n,2), valid (n,))."""
    C, H, W = img.shape
    out = torch.full((pts.shape[0], 2), float("nan"))
    valid = torch.zeros(pts.shape[0], dtype=torch.bool)
    im = img.double() * 255.0
    for k in range(pts.shape[0]):
        x, y = float(pts[k, 0]), float(pts[k, 1])
        if not (x == x and y == y):
            continue
        x0, y0 = math.floor(x), math.floor(y)
        if x0 < 0 or y0 < 0 or x0 + 1 > W - 1 or y0 + 1 > H - 1:
            continue
        fx, fy = x - x0, y - y0
        nb = im[:, y0:y0 + 2, x0:x0 + 2]
        dev = float((nb[2] - level).abs().max())
        if dev > lvl_tol:
            continue
        # a pixel that an interpolating step blended with padding (outside the frame) keeps a frame level within lvl_tol but
        # its coordinate channels are off by the same fraction of a much larger number: decode only where that bound is small
        if dev * float(max(nb[0].max(), nb[1].max())) / max(level, 1.0) > 0.3:
            continue
        w = torch.tensor([[(1 - fx) * (1 - fy), fx * (1 - fy)], [(1 - fx) * fy, fx * fy]], dtype=torch.double)
        out[k, 0] = float((nb[0] * w).sum()) - dw.OFFSET
        out[k, 1] = float((nb[1] * w).sum()) - dw.OFFSET
        valid[k] = True
    return out, valid


def content_mask(img, level, lvl_tol=2.0):
    return ((img[2].double() * 255.0) - level).abs() <= lvl_tol


def execute(plan, choices=None):
    from worlds import simexec

    with simexec.installed(seed=plan.get("seed", 0), choices=choices) as tx:
        res = _execute(plan, choices)
    return _with_threads(res, tx)


def _with_threads(res, tx):
    """Fold what the simulated thread pool saw into the run's result (inert unless the code under test used a pool)."""
    res["choices"] = tx.choices.log
    res["probes"]["thread_pool_tasks_scheduled"] = tx.stats["tasks_submitted"]
    res["steps"] = res.get("steps", 0) + tx.stats["scheduler_steps"]
    if tx.used:
        res["digest"] = hashlib.blake2b((res["digest"] + repr(tx.choices.log)).encode(), digest_size=16).hexdigest()
    if tx.failure and tx.failure["kind"] != "harness" and not res["violations"]:
        res["violations"].append({"kind": tx.failure["kind"], "sig": tx.failure["kind"] + ":thread-pool", "detail": tx.failure["detail"]})
    return res


def _execute(plan, choices=None):
    try:
        return _execute_inner(plan, choices)
    finally:
        shutil.rmtree(f"/dev/shm/verif-c04-{os.getpid()}-{plan.get('seed', 0) % 100000}", ignore_errors=True)


def _execute_inner(plan, choices=None):
    violations = []
    trace = []
    probes = {"keypoints_decoded": 0, "keypoints_skipped_in_padding": 0, "worst_err_over_tol_x1000_max": 0,
              "size_rounding_nonzero": 0, "padding_checked": 0, "crop_near_border": 0, "affine_applied": 0,
              "intensity_identity_checked": 0, "dataset_aug_reads": 0, "crop_size_helper_called_before_dataset": 0, "npz_dataset": 0, "stale_chunks_in_dir": 0}

    def V(kind, where, detail):
        violations.append({"kind": kind, "sig": f"{kind}:{where}", "detail": detail})

    def check_reg(where, img, pts_out, pts_orig, level, sigma, rho, extra=""):
        """pts_out/pts_orig (n,2). sigma = total scale, rho = accumulated size rounding (output px)."""
        dec, valid = decode(img, pts_out, level)
        tol = (1.0 + rho + 0.5 * abs(1.0 - sigma)) / sigma + 0.6
        for k in range(pts_out.shape[0]):
            if not bool(torch.isfinite(pts_orig[k]).all()):
                continue
            if not bool(valid[k]):
                # padding is fine; the content of ANOTHER frame (a different constant level in channel 2) is not
                x_, y_ = float(pts_out[k, 0]), float(pts_out[k, 1])
                if x_ == x_ and 0 <= math.floor(x_) and math.floor(x_) + 1 <= img.shape[-1] - 1 and 0 <= math.floor(y_) and math.floor(y_) + 1 <= img.shape[-2] - 1:
                    nb = img[2, math.floor(y_):math.floor(y_) + 2, math.floor(x_):math.floor(x_) + 2].double() * 255.0
                    if float(nb.min()) > 30.0 and float((nb - nb.mean()).abs().max()) < 1.0 and abs(float(nb.mean()) - level) > 4.0:
                        V("content_from_wrong_frame", where,
                          f"{where}: the image around output keypoint {pts_out[k].tolist()} is content of another frame (frame level {float(nb.mean()):.0f}, this sample's frame has level {level}) {extra}")
                        return False
                probes["keypoints_skipped_in_padding"] += 1
                continue
            err = float((dec[k] - pts_orig[k].double()).abs().max())
            probes["keypoints_decoded"] += 1
            probes["worst_err_over_tol_x1000_max"] = max(probes["worst_err_over_tol_x1000_max"], int(1000 * err / tol))
            if err > tol:
                V("misregistered", where,
                  f"{where}: image content at output keypoint {pts_out[k].tolist()} comes from original {dec[k].tolist()} but the keypoint was labelled at "
                  f"{pts_orig[k].tolist()} (error {err:.2f} px > tolerance {tol:.2f}; total scale {sigma:.3f}, rho {rho:.2f}) {extra}")
                return False
        return True

    scene = plan["scene"]
    if plan["mode"] == "chain":
        f = scene["frames"][plan["frame"] % len(scene["frames"])]
        H, W = scene["sizes"][f["video"]]
        level = 90
        img = torch.from_numpy(dw.coord_frame(H, W, level).transpose(2, 0, 1)[None].astype("float32") / 255.0)  # (1,3,H,W)
        orig = torch.tensor([[i["pts"] for i in f["instances"]]], dtype=torch.float32)  # (1,n,nodes,2)
        pts = orig.clone()
        sigma, rho = 1.0, 0.0
        cropped = False
        for s in plan["steps"]:
            k = s["k"]
            trace.append(k)
            try:
                if k == "sizematcher":
                    h0, w0 = img.shape[-2:]
                    img, eff = apply_sizematcher(img, s["mh"], s["mw"])
                    pts = pts * eff
                    mh = s["mh"] if s["mh"] is not None else h0
                    mw = s["mw"] if s["mw"] is not None else w0
                    if tuple(img.shape[-2:]) != (mh, mw):
                        V("wrong_size", "sizematcher", f"apply_sizematcher({h0}x{w0} -> max {s['mh']}x{s['mw']}) returned {tuple(img.shape[-2:])}, expected {(mh, mw)}")
                        break
                    # content rectangle, scale and size rounding from first principles (never from the value the code returned:
                    # the keypoints above are moved by the returned scale, exactly as every caller does)
                    eff0 = min(mh / h0, mw / w0) if (h0, w0) != (mh, mw) else 1.0
                    th, tw = int(round(h0 * eff0)), int(round(w0 * eff0))
                    r = max(abs(h0 * eff0 - th), abs(w0 * eff0 - tw))
                    if r > 1e-6:
                        probes["size_rounding_nonzero"] += 1
                    rho = rho * eff0 + r
                    sigma *= eff0
                    # padding only bottom/right
                    cm = content_mask(img[0], level)
                    probes["padding_checked"] += 1
                    if bool(cm[th:, :].any()) and th < mh - 1 and bool(cm[th + 1:, :].any()):
                        V("padding_not_bottom_right", "sizematcher", f"content found below row {th} after size matching to {(mh, mw)}")
                        break
                    if th >= 3 and tw >= 3 and not bool(cm[1:th - 1, 1:tw - 1].all()):
                        V("padding_not_bottom_right", "sizematcher", f"padding found inside the top-left {th}x{tw} content rectangle")
                        break
                elif k == "resizer":
                    h0, w0 = img.shape[-2:]
                    img, pts = apply_resizer(img, pts, scale=s["scale"])
                    want = (int(h0 * s["scale"]), int(w0 * s["scale"]))
                    if tuple(img.shape[-2:]) != want:
                        V("wrong_size", "resizer", f"apply_resizer scale {s['scale']} on {h0}x{w0} returned {tuple(img.shape[-2:])}, expected {want}")
                        break
                    r = max(h0 * s["scale"] - want[0], w0 * s["scale"] - want[1])
                    if r > 1e-6:
                        probes["size_rounding_nonzero"] += 1
                    rho = rho * s["scale"] + r
                    sigma *= s["scale"]
                elif k == "pad":
                    h0, w0 = img.shape[-2:]
                    before = img.clone()
                    img = apply_pad_to_stride(img, s["stride"])
                    h1, w1 = img.shape[-2:]
                    eh, ew = math.ceil(h0 / s["stride"]) * s["stride"], math.ceil(w0 / s["stride"]) * s["stride"]
                    if (h1, w1) != (eh, ew):
                        V("wrong_size", "pad", f"apply_pad_to_stride({h0}x{w0}, {s['stride']}) returned {h1}x{w1}, expected {eh}x{ew}")
                        break
                    probes["padding_checked"] += 1
                    if not torch.equal(img[..., :h0, :w0], before):
                        V("padding_not_bottom_right", "pad", f"stride padding moved the image content (top-left {h0}x{w0} block differs from the input)")
                        break
                    if float(img[..., h0:, :].abs().sum()) + float(img[..., :, w0:].abs().sum()) != 0.0:
                        V("padding_not_bottom_right", "pad:nonzero", "padded region is not zero")
                        break
                elif k == "crop":
                    n = pts.shape[1]
                    j = s["inst"] % n
                    inst = pts[0, j]
                    vis = ~torch.isnan(inst).any(dim=-1)
                    if not bool(vis.any()):
                        continue
                    cen = (inst[vis].min(0).values + inst[vis].max(0).values) * 0.5
                    if s["edge"]:
                        probes["crop_near_border"] += 1
                        cen = cen * 0 + torch.tensor([2.0, 3.0])
                    out = generate_crops(img, inst, cen, tuple(s["size"]))
                    img = out["instance_image"]
                    if tuple(img.shape[-2:]) != tuple(s["size"]):
                        V("wrong_size", "crop", f"generate_crops size {s['size']} returned {tuple(img.shape[-2:])}")
                        break
                    pts = out["instance"].unsqueeze(1)  # (1,1,nodes,2)
                    orig = orig[:, j:j + 1]
                    cropped = True
                elif k == "affine":
                    torch.manual_seed(s["rng"])
                    h0, w0 = img.shape[-2:]
                    sc = tuple(s["scale"]) if s["scale"] else None
                    img, pts = apply_geometric_augmentation(img, pts, rotation=s["rotation"], scale=sc, translate_width=s["tw"],
                                                            translate_height=s["th"], affine_p=1.0)
                    probes["affine_applied"] += 1
                    if tuple(img.shape[-2:]) != (h0, w0):
                        V("wrong_size", "affine", f"geometric augmentation changed the image size {h0}x{w0} -> {tuple(img.shape[-2:])}")
                        break
                    # an affine warp with scale in [0.7,1.3] changes the local scale; tolerance is stated in output pixels,
                    # so be conservative and use the smallest scale the augmentation may apply
                    if sc:
                        sigma *= min(sc)
                else:
                    torch.manual_seed(s["rng"])
                    kw = {"uniform_noise_p": 1.0 if "uniform" in s["which"] else 0.0, "gaussian_noise_p": 1.0 if "gauss" in s["which"] else 0.0,
                          "contrast_p": 1.0 if "contrast" in s["which"] else 0.0, "brightness": 0.3, "brightness_p": 1.0 if "bright" in s["which"] else 0.0}
                    before = pts.clone()
                    _, p2 = apply_intensity_augmentation(img.clone(), pts, **kw)
                    probes["intensity_identity_checked"] += 1
                    if not torch.equal(torch.nan_to_num(p2, nan=-7.0), torch.nan_to_num(before, nan=-7.0)):
                        V("intensity_moved_keypoints", "intensity", f"intensity-only augmentation {s['which']} changed keypoints: max diff {float((torch.nan_to_num(p2) - torch.nan_to_num(before)).abs().max())}")
                        break
                    continue  # image itself no longer decodable; keep the un-augmented one
            except Exception as e:
                import traceback

                V("step_failed", f"{k}:{type(e).__name__}", f"step {s} raised {type(e).__name__}: {e}\n{traceback.format_exc()[-600:]}")
                break
            if not check_reg(k, img[0], pts.reshape(-1, 2), orig.reshape(-1, 2), level, sigma, rho, extra=f"after steps {trace}"):
                break
        # find_instance_crop_size contract on this scene
        if not violations and plan["steps"] and plan["steps"][0]["k"] in ("crop", "resizer"):
            lab = dw.build_labels(scene)
            ms = random.Random(plan.get("seed", 0)).choice([2, 4, 8, 16, 32])
            sc = random.Random(plan.get("seed", 0) + 1).choice([0.5, 1.0, 2.0])
            cs = find_instance_crop_size(lab, maximum_stride=ms, input_scaling=sc)
            ext = 0.0
            for fr in scene["frames"]:
                for i in fr["instances"]:
                    a = np.array(i["pts"], dtype=float)
                    if np.isfinite(a).any():
                        ext = max(ext, float(np.nanmax(a[:, 0]) - np.nanmin(a[:, 0])), float(np.nanmax(a[:, 1]) - np.nanmin(a[:, 1])))
            if cs % ms != 0 or cs + 1e-6 < ext * sc:
                V("bad_crop_size", "find_instance_crop_size", f"crop size {cs} for max stride {ms}, scale {sc}: not a multiple of the stride or smaller than the largest instance extent {ext * sc:.2f}")
    else:
        spec = plan["ds"]
        kind, cfg = spec["kind"], spec["cfg"]
        labels = dw.build_labels(scene)
        try:
            if plan.get("seed", 0) % 2 == 0:
                # what a direct-API user does for a centered-instance model: size the crop from the labels, then build the dataset
                # from the SAME labels object (helpers must not have touched it)
                find_instance_crop_size(labels, maximum_stride=max(cfg["max_stride"], 2), input_scaling=cfg["scale"])
                probes["crop_size_helper_called_before_dataset"] = 1
            npz_root = None
            if spec.get("npz"):
                # the .npz-chunk flavour of the same dataset, in a directory an earlier run already used for another geometry
                npz_root = f"/dev/shm/verif-c04-{os.getpid()}-{plan.get('seed', 0) % 100000}"
                shutil.rmtree(npz_root, ignore_errors=True)
                os.makedirs(npz_root)
                if spec.get("stale_dir"):
                    c0 = copy.deepcopy(cfg)
                    c0["scale"] = 1.0 if cfg["scale"] != 1.0 else 0.5
                    c0["apply_aug"] = False
                    dw.build_dataset(kind, dw.build_labels(dw.stale_scene(scene)), c0, np_chunks=True, np_chunks_path=npz_root)
                    probes["stale_chunks_in_dir"] = 1
                ds = dw.build_dataset(kind, labels, cfg, np_chunks=True, np_chunks_path=npz_root)
                probes["npz_dataset"] = 1
            else:
                ds = dw.build_dataset(kind, labels, cfg)
            ref = None
            if spec["aug_kind"] == "intensity":
                c2 = copy.deepcopy(cfg)
                c2["apply_aug"] = False
                ref = dw.build_dataset(kind, dw.build_labels(scene), c2)
        except Exception as e:
            import traceback

            V("dataset_build_failed", f"{kind}:{type(e).__name__}", f"{type(e).__name__}: {e}\n{traceback.format_exc()[-600:]}")
            ds = None
        from props.c11 import _truth_for_index

        for op in plan["ops"] if ds is not None else []:
            if violations:
                break
            if op["op"] == "rng_jump":
                torch.manual_seed(op["seed"])
                trace.append("rng_jump")
                continue
            n = len(ds)
            if n == 0:
                break
            i = op["i"] % n
            try:
                s = ds[i]
            except Exception as e:
                import traceback

                V("read_failed", f"{kind}:{type(e).__name__}", f"ds[{i}] raised {type(e).__name__}: {e}\n{traceback.format_exc()[-600:]}")
                break
            trace.append(("get", i))
            probes["dataset_aug_reads"] += 1
            f, insts, one = _truth_for_index(scene, kind, i, cfg.get("user_instances_only", True))
            H, W = scene["sizes"][f["video"]]
            level = dw.frame_level(f["video"] * 12 + f["frame_idx"])
            mh, mw = cfg["max_hw"]
            # total scale and rounding, from first principles
            eff = min(mh / H, mw / W) if (H, W) != (mh, mw) else 1.0
            th, tw = (int(round(H * eff)), int(round(W * eff))) if (H, W) != (mh, mw) else (H, W)
            rho = max(abs(H * eff - th), abs(W * eff - tw)) if (H, W) != (mh, mw) else 0.0
            sc = cfg["scale"]
            if sc != 1.0:
                rho = rho * sc + max(mh * sc - int(mh * sc), mw * sc - int(mw * sc))
            sigma = eff * sc
            if spec["aug_kind"] == "geometric" and cfg["aug"]["geometric"].get("scale"):
                sigma *= min(cfg["aug"]["geometric"]["scale"])
            if kind == "centered":
                img = s["instance_image"][0]
                out_pts = s["instance"][0]
                orig_pts = torch.tensor(one["pts"], dtype=torch.float32)
                want_hw = tuple(math.ceil(c / cfg["max_stride"]) * cfg["max_stride"] for c in cfg["crop_hw"])
                if tuple(img.shape[-2:]) != want_hw:
                    V("wrong_size", "dataset:centered", f"crop is {tuple(img.shape[-2:])}, requested {cfg['crop_hw']} (max_stride {cfg['max_stride']})")
                    break
            else:
                img = s["image"][0]
                key = "centroids" if kind == "centroid" else "instances"
                if kind == "centroid":
                    # centroids are derived points: compare through the instances (same transform must apply to both)
                    out_pts = s["instances"][0][: len(insts)].reshape(-1, 2) if spec["aug_kind"] != "geometric" else None
                    orig_pts = torch.tensor([x["pts"] for x in insts], dtype=torch.float32).reshape(-1, 2)
                    if out_pts is None:
                        # with geometric augmentation only the centroids are transformed; check those whose anchor is visible
                        a = cfg["anchor"]
                        if a is None:
                            continue
                        out_pts = s["centroids"][0][: len(insts)]
                        orig_pts = torch.tensor([x["pts"][a] for x in insts], dtype=torch.float32)
                else:
                    out_pts = s[key][0][: len(insts)].reshape(-1, 2)
                    orig_pts = torch.tensor([x["pts"] for x in insts], dtype=torch.float32).reshape(-1, 2)
                eh = math.ceil(int(mh * sc) / cfg["max_stride"]) * cfg["max_stride"] if sc != 1.0 else math.ceil(mh / cfg["max_stride"]) * cfg["max_stride"]
                ew = math.ceil(int(mw * sc) / cfg["max_stride"]) * cfg["max_stride"] if sc != 1.0 else math.ceil(mw / cfg["max_stride"]) * cfg["max_stride"]
                if tuple(img.shape[-2:]) != (eh, ew):
                    V("wrong_size", f"dataset:{kind}", f"sample image is {tuple(img.shape[-2:])}, expected {(eh, ew)} for max_hw {cfg['max_hw']}, scale {sc}, max_stride {cfg['max_stride']}")
                    break
            if spec["aug_kind"] == "intensity":
                r = ref[i]
                kk = "instance" if kind == "centered" else ("centroids" if kind == "centroid" else "instances")
                probes["intensity_identity_checked"] += 1
                if not torch.equal(torch.nan_to_num(s[kk], nan=-7.0), torch.nan_to_num(r[kk], nan=-7.0)):
                    V("intensity_moved_keypoints", f"dataset:{kind}", f"{kind} dataset with intensity-only augmentation returned keypoints that differ from the un-augmented dataset")
                    break
                continue
            if spec["aug_kind"] == "geometric":
                probes["affine_applied"] += 1
            if not check_reg(f"dataset:{kind}", img, out_pts, orig_pts, level, sigma, rho,
                             extra=f"(sample {i}, aug {spec['aug_kind']}, cfg scale {sc}, max_hw {cfg['max_hw']}, frame size {(H, W)})"):
                break
    cls = describe(plan)
    return {
        "violations": violations,
        "digest": hashlib.blake2b(repr((trace, [v["sig"] for v in violations], probes["keypoints_decoded"])).encode(), digest_size=16).hexdigest(),
        "choices": [],
        "shape": hashlib.blake2b(repr(cls).encode(), digest_size=8).hexdigest(),
        "nontrivial": probes["keypoints_decoded"] > 0 or probes["intensity_identity_checked"] > 0,
        "probes": probes,
        "faults": {"rng_jump": sum(1 for o in plan.get("ops", []) if o["op"] == "rng_jump")},
        "sim_us": 0,
        "steps": len(trace),
        "fault_free": True,
        "states": [],
        "outcome": {"decoded": probes["keypoints_decoded"], "worst": probes["worst_err_over_tol_x1000_max"] / 1000.0},
    }
