"""C03 - bottom-up inference reassembles exactly the labelled animals from ideal maps."""

import copy
import hashlib
import math

import numpy as np

from props.c02 import eff_scale, _tol
from worlds import predworld as pw

ID = "C03"
LEVEL = "exploration"
RULE = (
    "one run = one seeded tree skeleton (2-6 nodes, random numbering and edge listing) x 1-5 well-separated animals with "
    "random missing nodes x image size x size matching x input scale x (confmap stride, PAF stride) x refinement x batch, "
    "run through the simulated inference stream with BottomUpPredictor around an ideal stub that returns the repository's own "
    "training targets (generate_multiconfmaps + generate_pafs) for the keypoints it locates in the image it is given. "
    "Oracle: predicted instances == connected components (through visible edges, >= 2 visible keypoints) of each animal, "
    "coordinates within the C02 tolerance, NaN elsewhere, nothing extra. Scenes are kept only if an independent analytic "
    "line integral over the ideal field gives own-edge score >= 0.6 and every cross candidate <= 0.1. "
    "Non-trivial = >= 2 animals or a missing node; distinct = digest of (skeleton shape, animals, config class)"
)
COMPONENTS = {
    "real": ["BottomUpPredictor (make_pipeline, _initialize_inference_model, _predict_generator)", "BottomUpInferenceModel", "find_local_peaks",
             "PAFScorer.predict (score_paf_lines, match_candidates, group_instances, toposort_edges)", "generate_multiconfmaps / generate_pafs (inside the stub, as the definition of ideal maps)"],
    "stub": ["trained network -> IdealNet(bottomup): content-decoding + repository target generators", "queue -> SimQueue, media -> in-memory coordinate frames"],
}
ASSUMPTIONS = [
    "well-separated class fixed from first principles: PAF sigma = max(3, 1.15*(cms_stride+paf_stride)^2) (weight >= 0.9 at the worst peak-quantisation + nearest-cell offset under the generator's exp(-d^4/2sigma^2) profile), "
    "own edges shorter than 0.2*max(H,W), same-node peaks of different animals >= 5 confmap sigmas apart, analytic own-edge score >= 0.6 and cross score <= 0.1",
    "tolerance as in C02 with S = confmap stride",
    "RGB coordinate-carrying frames; make_labels=False records",
]
TIERS = {
    "quick": {"runs": 2500, "time_cap_s": 90, "chunk": 20, "det_inproc": 5, "det_fresh": 3, "minimise_s": 60},
    "thorough": {"runs": 150000, "time_cap_s": 1200, "chunk": 50, "det_inproc": 20, "det_fresh": 10, "minimise_s": 180},
}


def _w(d2, sigma):
    # the generator's weight profile: gaussian_pdf(squared distance)
    return math.exp(-(d2 ** 2) / (2.0 * sigma ** 2))


def _dist2_seg(p, a, b):
    ab = b - a
    L2 = max(float(ab @ ab), 1.0)
    t = min(max(float((p - a) @ ab) / L2, 0.0), 1.0)
    q = a + t * ab
    return float((p - q) @ (p - q))


def analytic_scores_new(existing, cand, edges, paf_sigma, n_points=10, all_pairs=False):
    """Same line integral as analytic_scores (vectorised). By default restricted to the candidate pairs that involve the
    new animal - a cheap filter while placing animals; `all_pairs=True` evaluates the whole frame (the binding check)."""
    animals = existing + [cand]
    new = len(animals) - 1
    own_min, cross_max = 1.0, 0.0
    ts = np.linspace(0, 1, n_points)
    for (s, d) in edges:
        segs = [(a[s], a[d]) for a in animals if not (np.isnan(a[s]).any() or np.isnan(a[d]).any())]
        if not segs:
            continue
        A0 = np.array([x[0] for x in segs])
        E = np.array([x[1] - x[0] for x in segs])
        L2 = np.maximum((E * E).sum(1), 1.0)
        nE = np.linalg.norm(E, axis=1)
        U = E / np.maximum(nE, 1e-9)[:, None]
        pairs = []
        for i, a in enumerate(animals):
            for j, b in enumerate(animals):
                if (all_pairs or i == new or j == new) and not np.isnan(a[s]).any() and not np.isnan(b[d]).any():
                    pairs.append((i, j, a[s], b[d]))
        for i, j, ps_, pd_ in pairs:
            v = pd_ - ps_
            Ln = float(np.linalg.norm(v))
            if Ln < 1e-6:
                continue
            u = v / Ln
            P = ps_[None, :] + ts[:, None] * v[None, :]  # (n_points, 2)
            rel = P[:, None, :] - A0[None, :, :]  # (n_points, n_segs, 2)
            t = np.clip((rel * E[None]).sum(-1) / L2[None], 0.0, 1.0)
            q = A0[None] + t[..., None] * E[None]
            d2 = ((P[:, None, :] - q) ** 2).sum(-1)
            w = np.exp(-(d2 ** 2) / (2.0 * paf_sigma ** 2)) * (nE[None] >= 1e-6)
            f = (w[..., None] * U[None]).sum(1)  # (n_points, 2)
            sc = float((f @ u).mean())
            if i == j:
                own_min = min(own_min, sc)
            else:
                cross_max = max(cross_max, sc)
    return own_min, cross_max


def analytic_scores(animals_g, edges, paf_sigma, n_points=10):
    """Own-edge minimum and cross-candidate maximum of the analytic line integral (given-image coordinates)."""
    own_min, cross_max = 1.0, 0.0
    for (s, d) in edges:
        srcs = [(i, a[s]) for i, a in enumerate(animals_g) if not np.isnan(a[s]).any()]
        dsts = [(i, a[d]) for i, a in enumerate(animals_g) if not np.isnan(a[d]).any()]
        segs = [(a[s], a[d]) for a in animals_g if not (np.isnan(a[s]).any() or np.isnan(a[d]).any())]
        for i, ps in srcs:
            for j, pd in dsts:
                v = pd - ps
                L = float(np.linalg.norm(v))
                if L < 1e-6:
                    continue
                u = v / L
                tot = 0.0
                for t in np.linspace(0, 1, n_points):
                    p = ps + t * v
                    f = np.zeros(2)
                    for (a0, a1) in segs:
                        e = a1 - a0
                        ne = float(np.linalg.norm(e))
                        if ne < 1e-6:
                            continue
                        f += _w(_dist2_seg(p, a0, a1), paf_sigma) * (e / ne)
                    tot += float(f @ u)
                sc = tot / n_points
                if i == j:
                    own_min = min(own_min, sc)
                else:
                    cross_max = max(cross_max, sc)
    return own_min, cross_max


def gen_plan(rng, index, tier, opts=None):
    tiny = bool(opts and opts.get("tiny"))  # used by C12: tiny PAF grids, long edges (distance penalty active), big batches
    crowded = (not tiny) and rng.random() < 0.15  # many animals x many nodes: more than 64 connection candidates in a frame
    for _attempt in range(300):
        n_nodes = 2 if tiny else (rng.choice([4, 5, 6]) if crowded else rng.choice([2, 3, 4, 5, 6]))
        perm = list(range(n_nodes))
        rng.shuffle(perm)
        edges = []
        for j in range(1, n_nodes):
            a, b = perm[rng.randrange(0, j)], perm[j]
            edges.append([a, b])
        rng.shuffle(edges)
        H, W = (rng.randint(40, 56), rng.randint(40, 56)) if tiny else (rng.randint(72, 176), rng.randint(72, 176))
        if crowded:
            H, W = rng.randint(190, 230), rng.randint(190, 230)
        mixed = (not tiny) and (not crowded) and rng.random() < 0.25  # a labels file whose two videos have different frame sizes
        sizes = [[H, W], [rng.randint(72, 176), rng.randint(72, 176)] if mixed else [H, W]]
        r = 0.0 if tiny else rng.random()
        if mixed:
            mh = mw = None
            mh, mw = rng.choice([max(sizes[0][0], sizes[1][0]), rng.randint(72, 200)]), rng.choice([max(sizes[0][1], sizes[1][1]), rng.randint(72, 200)])
        elif r < 0.5:
            mh = mw = None
        elif r < 0.75:
            mh, mw = H + rng.randint(0, 40), W + rng.randint(0, 40)
        else:
            mh, mw = rng.randint(72, 200), rng.randint(72, 200)
        e, IH, IW, r1 = eff_scale(H, W, mh, mw)
        ms = rng.choice([1, 2, 4, 8, 16])
        cs = rng.choice([s for s in (1, 2, 4, 8) if s <= ms] or [1])
        ps = rng.choice([s for s in (1, 2, 4, 8) if s <= ms] or [1])
        scale = rng.choice([0.5, 0.75, 1.0, 1.0, 1.25])
        if tiny:
            ms, ps, cs, scale = 8, 8, rng.choice([1, 2]), 1.0
        if crowded:
            ms, cs, ps, scale = rng.choice([2, 4]), rng.choice([1, 2]), rng.choice([1, 2]), rng.choice([1.0, 1.25])
            r = 0.0
        sigma_cm = 1.5
        # worst perpendicular offset of a sampled PAF cell from the true edge: peak quantisation (cs/sqrt2) + nearest-cell lookup (ps/sqrt2);
        # weight exp(-d^4/2sigma^2) >= 0.9 there  <=>  sigma >= 2.24 d^2 = 1.12 (cs+ps)^2
        paf_sigma = max(3.0, 1.15 * (cs + ps) ** 2)
        peak_sep = 5.0 * sigma_cm * cs + 2.0
        n_frames = rng.randint(2, 4) if mixed else rng.randint(1, 3)
        frames = []
        ok = True
        fidxs = list(range(8))
        rng.shuffle(fidxs)
        for k in range(n_frames):
            vid = (k if k < 2 else rng.randrange(2)) if mixed else 0
            fH, fW = sizes[vid]
            e = eff_scale(fH, fW, mh, mw)[0]
            g = scale * e  # content scale of THIS frame (size matching differs per frame size)
            margin_g = 4.0 * cs + 3.0
            Wg, Hg = fW * g, fH * g
            if Wg < 2 * margin_g + 20 or Hg < 2 * margin_g + 20:
                ok = False
                break
            node_min = max(5.0, 1.5 * ps, 2.0 * cs)
            ext_g = min(0.09 * max(Hg, Wg), 4.0 * node_min)  # half extent of a body, given px -> edges < 0.2*max dim
            if tiny:
                node_min, ext_g, margin_g = 14.0, 0.33 * min(Hg, Wg), 3.0 * cs + 2.0  # edges longer than 0.25 * grid side * stride
            if ext_g < node_min and not tiny:
                ok = False
                break
            animals_g = []
            for a in range(1 if tiny else (6 if crowded else rng.randint(1, 5))):
                for _t in range(200 if crowded else 40):
                    cx, cy = rng.uniform(margin_g + ext_g, Wg - 1 - margin_g - ext_g), rng.uniform(margin_g + ext_g, Hg - 1 - margin_g - ext_g)
                    pts = []
                    good = True
                    for j in range(n_nodes):
                        for _u in range(20):
                            p = np.array([cx + rng.uniform(-ext_g, ext_g), cy + rng.uniform(-ext_g, ext_g)])
                            if all(np.linalg.norm(p - q) >= node_min for q in pts):
                                pts.append(p)
                                break
                        else:
                            good = False
                            break
                    if not good:
                        continue
                    pts = np.array(pts)
                    # same-node peaks of different animals far apart
                    if any(np.linalg.norm(pts[j] - o[j]) < peak_sep for o in animals_g for j in range(n_nodes) if not np.isnan(o[j]).any()):
                        continue
                    # ... and ANY two keypoints of different animals at least a node spacing apart: "well separated" rules out one
                    # animal's node sitting on another animal's (different) node, which makes a zero-length connection candidate
                    if any(np.linalg.norm(pts[j] - o[i]) < node_min for o in animals_g for j in range(n_nodes) for i in range(n_nodes) if not np.isnan(o[i]).any()):
                        continue
                    cand = pts.copy()
                    if n_nodes > 2 and rng.random() < (0.1 if crowded else 0.35):
                        for j in rng.sample(range(n_nodes), rng.randint(1, n_nodes - 2)):
                            cand[j] = np.nan
                    own, cross = analytic_scores_new(animals_g, cand, edges, paf_sigma)
                    if own < 0.6 or cross > 0.1:
                        continue
                    animals_g.append(cand)
                    break
            # the binding check is on the finished frame: later animals change the field the earlier ones are scored in
            while animals_g:
                own, cross = analytic_scores_new(animals_g[:-1], animals_g[-1], edges, paf_sigma, all_pairs=True)
                if own >= 0.6 and cross <= 0.1:
                    break
                animals_g.pop()
            if not animals_g:
                ok = False
                break
            fr = {"k": k, "animals": [(a / g).tolist() for a in animals_g]}
            if mixed:
                fr["vid"], fr["fidx"] = vid, fidxs[k]
            frames.append(fr)
        if not ok:
            continue
        plan = {"kind": "bottomup", "H": H, "W": W, "max_hw": [mh, mw], "n_nodes": n_nodes, "edges": edges, "refinement": rng.choice([None, "integral"]),
                "batch": rng.choice([2, 3]) if mixed else rng.choice([1, 2, 3]), "dtype": rng.choice(["uint8", "float32"]), "sigma": sigma_cm, "cap": rng.choice([1, 2, 4]),
                "bottomup": {"scale": scale, "max_stride": ms, "stride": cs, "paf_stride": ps, "paf_sigma": paf_sigma}, "frames": frames}
        if mixed:
            plan["sizes"] = sizes
        return plan
    raise RuntimeError("could not generate a C03 plan")


def describe(plan):
    d = {k: plan[k] for k in ("H", "W", "max_hw", "n_nodes", "edges", "refinement", "batch", "dtype", "bottomup")}
    d["animals"] = [["".join("N" if (p[0] != p[0]) else "x" for p in a) for a in f["animals"]] for f in plan["frames"]]
    if "sizes" in plan:
        d["sizes"] = plan["sizes"]
        d["frame_vid"] = [f.get("vid") for f in plan["frames"]]
    return d


def shrink(plan):
    fr = plan["frames"]
    if len(fr) > 1:
        for i in range(len(fr)):
            p = copy.deepcopy(plan)
            del p["frames"][i]
            yield p
    for i, f in enumerate(fr):
        if len(f["animals"]) > 1:
            for j in range(len(f["animals"])):
                p = copy.deepcopy(plan)
                del p["frames"][i]["animals"][j]
                yield p
    mixed = "sizes" in plan and len({tuple(x) for x in plan["sizes"]}) > 1
    for k, v in (("batch", 1), ("refinement", None), ("dtype", "uint8"), ("max_hw", [None, None])):
        if plan[k] != v and not (mixed and k == "max_hw"):
            p = copy.deepcopy(plan)
            p[k] = v
            yield p
    for i, f in enumerate(fr):
        for j, a in enumerate(f["animals"]):
            for n in range(len(a)):
                if a[n][0] != a[n][0]:
                    continue


def components(pts, edges):
    """Connected components through visible edges with >= 2 visible nodes -> list of sorted node lists."""
    n = len(pts)
    vis = [not (p[0] != p[0] or p[1] != p[1]) for p in pts]
    adj = {i: set() for i in range(n)}
    for a, b in edges:
        if vis[a] and vis[b]:
            adj[a].add(b)
            adj[b].add(a)
    seen, out = set(), []
    for i in range(n):
        if i in seen or not vis[i]:
            continue
        comp, st = [], [i]
        while st:
            x = st.pop()
            if x in seen:
                continue
            seen.add(x)
            comp.append(x)
            st.extend(adj[x] - seen)
        if len(comp) >= 2:
            out.append(sorted(comp))
    return out


def execute(plan, choices=None):
    violations = []
    probes = {"instances_expected": 0, "keypoints_compared": 0, "multi_animal_frames": 0, "split_animals": 0, "isolated_keypoints": 0,
              "missing_node_animals": 0, "worst_err_over_tol_x1000_max": 0, "stride_pair_differs": 0, "degenerate_tie_scene_skipped": 0, "mixed_frame_sizes": 0, "connection_candidates_in_a_frame_max": 0}

    def V(kind, where, detail):
        violations.append({"kind": kind, "sig": f"{kind}:{where}", "detail": detail})

    b = plan["bottomup"]
    s = b["scale"]
    mixed = "sizes" in plan and len({tuple(x) for x in plan["sizes"]}) > 1
    provider = "labels" if mixed else "video"

    def geom(f):
        fH, fW = pw.frame_hw(plan, f)
        e, IH, IW, r1 = eff_scale(fH, fW, plan["max_hw"][0], plan["max_hw"][1])
        r2 = max(IH * s - int(IH * s), IW * s - int(IW * s)) if s != 1.0 else 0.0
        return e, _tol(b["stride"], e * s, r1 * s + r2)

    digest = ""
    nets = {"bottomup": type("N", (), {"min_tie": float("inf")})()}
    try:
        records, end, err, sim, nets = pw.run_predictor(plan, provider, choices)
        digest = sim.digest()
        if sim.failure:
            V(sim.failure["kind"], "bottomup", sim.failure["detail"])
        elif end != "ok":
            V("inference_failed", f"bottomup:{(err or '').split(':')[0]}", f"_predict_generator ended with {end}: {err}")
    except Exception as ex:
        import traceback

        V("inference_failed", f"bottomup:{type(ex).__name__}", f"{type(ex).__name__}: {ex}\n{traceback.format_exc()[-900:]}")
        records = []
    if not violations:
        got = {}
        for r in records:
            fidx = np.asarray(r["frame_idx"]).reshape(-1)
            vidx = np.asarray(r["video_idx"]).reshape(-1)
            for bi in range(len(fidx)):
                got[(int(vidx[bi]), int(fidx[bi]))] = (np.asarray(r["pred_instance_peaks"][bi], dtype=np.float64).reshape(-1, plan["n_nodes"], 2),
                                      np.asarray(r["pred_peak_values"][bi], dtype=np.float64).reshape(-1, plan["n_nodes"]))
        for fi, f in enumerate(plan["frames"]):
            key = (f["vid"], f["fidx"]) if (mixed and "vid" in f) else (0, fi)
            if key not in got:
                V("frame_missing", "bottomup", f"no record for frame {fi} {key}")
                break
            P, Vv = got[key]
            e, tol = geom(f)
            expected = []
            for a in f["animals"]:
                comps = components(a, plan["edges"])
                vis_n = sum(1 for p in a if p[0] == p[0])
                if len(comps) > 1:
                    probes["split_animals"] += 1
                if vis_n > sum(len(c) for c in comps):
                    probes["isolated_keypoints"] += 1
                if vis_n < len(a):
                    probes["missing_node_animals"] += 1
                for c in comps:
                    tmpl = np.full((plan["n_nodes"], 2), np.nan)
                    for j in c:
                        tmpl[j] = a[j]
                    expected.append(tmpl)
            probes["instances_expected"] += len(expected)
            ncand = sum(sum(1 for a in f["animals"] if a[e0][0] == a[e0][0]) * sum(1 for a in f["animals"] if a[e1][0] == a[e1][0]) for e0, e1 in plan["edges"])
            probes["connection_candidates_in_a_frame_max"] = max(probes["connection_candidates_in_a_frame_max"], ncand)
            if len(f["animals"]) > 1:
                probes["multi_animal_frames"] += 1
            preds = [P[i] for i in range(P.shape[0]) if not np.isnan(P[i]).all()]
            used = set()
            for t in expected:
                best, bd = None, None
                for j, p in enumerate(preds):
                    if j in used:
                        continue
                    if (np.isnan(p).any(axis=1) != np.isnan(t).any(axis=1)).any():
                        continue
                    d = float(np.nanmax(np.abs(p - t)))
                    if bd is None or d < bd:
                        best, bd = j, d
                if best is None:
                    V("animal_not_reassembled", "bottomup",
                      f"frame {fi}: no predicted instance has exactly the visible nodes {(~np.isnan(t).any(axis=1)).tolist()} of the labelled group at {np.round(t, 1).tolist()}; "
                      f"predicted node patterns {[(~np.isnan(p).any(axis=1)).tolist() for p in preds]} at {[np.round(p, 1).tolist() for p in preds]}; cfg={describe(plan)}")
                    break
                used.add(best)
                probes["keypoints_compared"] += int((~np.isnan(t).any(axis=1)).sum())
                probes["worst_err_over_tol_x1000_max"] = max(probes["worst_err_over_tol_x1000_max"], int(1000 * bd / tol))
                if bd > tol:
                    V("wrong_coordinates", "bottomup", f"frame {fi}: instance predicted at {np.round(preds[best], 2).tolist()} but labelled at {np.round(t, 2).tolist()} "
                                                        f"(error {bd:.2f} > tolerance {tol:.2f}; stride {b['stride']}, scale {s}, eff {e:.4f}); cfg={describe(plan)}")
                    break
            if violations:
                break
            if len(used) != len(preds):
                extra = [np.round(p, 1).tolist() for j, p in enumerate(preds) if j not in used]
                V("extra_instance", "bottomup", f"frame {fi}: {len(preds) - len(used)} predicted instance(s) correspond to no labelled group: {extra}; expected {len(expected)} groups; cfg={describe(plan)}")
                break
    if violations and violations[0]["kind"] in ("animal_not_reassembled", "wrong_coordinates", "extra_instance") and nets["bottomup"].min_tie < 2e-3:
        # not general position: a keypoint sits exactly half-way between two grid cells, the ideal map has two equal maxima there
        violations = []
        probes["degenerate_tie_scene_skipped"] = 1
    if b["stride"] != b["paf_stride"]:
        probes["stride_pair_differs"] = 1
    if mixed:
        probes["mixed_frame_sizes"] = 1
    return {
        "violations": violations,
        "digest": hashlib.blake2b(repr((digest, [v["sig"] for v in violations], probes["keypoints_compared"])).encode(), digest_size=16).hexdigest(),
        "choices": [],
        "shape": hashlib.blake2b(repr(describe(plan)).encode(), digest_size=8).hexdigest(),
        "nontrivial": probes["instances_expected"] > 0 and (probes["multi_animal_frames"] > 0 or probes["missing_node_animals"] > 0),
        "probes": probes,
        "faults": {},
        "sim_us": 0,
        "steps": 0,
        "fault_free": True,
        "states": [],
        "outcome": {"expected": probes["instances_expected"], "worst": probes["worst_err_over_tol_x1000_max"] / 1000.0},
    }
