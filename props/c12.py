"""C12 - a frame's predictions are independent of batch-mates and carry its indices."""

import copy
import hashlib
import math
import random

import numpy as np

from props import c02, c03  # noqa: F401
from worlds import predworld as pw

ID = "C12"
LEVEL = "exploration"
RULE = (
    "one run = one seeded scene (1-8 frames holding 0..k animals, labels listed in arbitrary order over two videos or a plain "
    "video) x model type (single-instance, top-down, bottom-up) x batch size x max_instances x refinement x an optional read "
    "fault that cuts the stream; executed A) as a stream at batch size b, B) every frame alone on a fresh predictor, C) in a "
    "permuted order; the batched stream must refine the per-frame reference: same instances (coordinates, peak values, scores) "
    "per frame within 1e-4, right frame/video index and original size on every record, empty frames yield nothing and disturb "
    "nobody, max_instances keeps the highest-scoring instances. Non-trivial = a batch held >= 2 frames of differing content; "
    "distinct = digest of (model type, batch composition pattern, config class)"
)
COMPONENTS = {
    "real": ["Predictor._predict_generator batching", "SingleInstanceInferenceModel", "CentroidCrop (per-sample split, top-k, NaN padding, skip of empty samples) + FindInstancePeaks",
             "BottomUpInferenceModel + PAFScorer", "find_local_peaks / find_global_peaks", "LabelsReader / VideoReader threads"],
    "stub": ["trained network -> IdealNet (a pure function of each sample of its input, hence batch- and history-independent by construction)",
             "queue -> SimQueue under the baton scheduler; media -> in-memory frames"],
}
ASSUMPTIONS = [
    "the reference for every frame is a fresh predictor run on that frame alone (batch size 1)",
    "the bottom-up max_instances limit lives only in the make_labels=True path, which cannot run under sleap-io 0.9.2; it is not checked",
    "scenes obey the same general-position / well-separated classes as C02 / C03 so that the reference itself is unambiguous",
]
TIERS = {
    "quick": {"runs": 2500, "time_cap_s": 90, "chunk": 10, "det_inproc": 4, "det_fresh": 2, "minimise_s": 60},
    "thorough": {"runs": 100000, "time_cap_s": 1200, "chunk": 30, "det_inproc": 16, "det_fresh": 8, "minimise_s": 180},
}


def gen_plan(rng, index, tier):
    kind = ["single", "topdown", "bottomup"][index % 3]
    # reuse the scenario generators of C02 / C03 (general position), then mix frames
    tiny = kind == "bottomup" and rng.random() < 0.2
    if kind == "bottomup":
        base = c03.gen_plan(rng, index, tier, opts={"tiny": True} if tiny else None)
    else:
        base = c02.gen_plan(rng, 0 if kind == "single" else 1, tier)
    plan = base
    plan["kind"] = kind
    plan["tiny"] = tiny
    mixed = "sizes" in plan and len({tuple(x) for x in plan["sizes"]}) > 1
    # more frames: re-draw animals by dropping from the generated ones
    frames = plan["frames"]
    n = rng.randint(8, 12) if tiny else rng.randint(2, 8)
    out = []
    for k in range(n):
        src = copy.deepcopy(frames[k % len(frames)])
        animals = src["animals"]
        if kind != "single":
            r = rng.random()
            if r < 0.2:
                animals = []
            elif r < 0.5 and len(animals) > 1:
                animals = rng.sample(animals, rng.randint(1, len(animals)))
        elif rng.random() < 0.2:
            animals = [[[float("nan"), float("nan")] for _ in range(plan["n_nodes"])]]
        fr = {"k": k, "animals": animals}
        if mixed:
            fr["vid"] = src["vid"]
        out.append(fr)
    plan["frames"] = out
    plan["batch"] = rng.randint(7, n) if tiny else rng.choice([2, 2, 2, 3, 3, 4, 5, 6])  # tiny: more frames per batch than PAF grid cells per side
    if kind != "single" and rng.random() < 0.2 and n >= 2 * plan["batch"]:
        # a whole batch without any detection, after a batch that had some (state kept from the previous batch must not leak in)
        b = plan["batch"]
        j = rng.randint(1, n // b - 1)
        for k in range(j * b, min((j + 1) * b, n)):
            out[k]["animals"] = []
    plan["provider"] = "labels" if mixed else rng.choice(["labels", "labels", "video"])
    if kind == "topdown" and not plan.get("gt_centroids") and rng.random() < 0.25:
        plan["centroid_only"] = True  # centroid model alone (FindInstancePeaksGroundTruth): needs the labelled instances
    if plan.get("gt_centroids") or plan.get("centroid_only"):
        plan["provider"] = "labels"
    if plan["provider"] == "labels":
        plan["same_filename"] = rng.random() < 0.3  # both videos embedded in one package file
        fidxs = list(range(14))
        rng.shuffle(fidxs)
        for i, fr in enumerate(plan["frames"]):
            if not mixed:
                fr["vid"] = rng.randrange(2)
            fr["fidx"] = fidxs[i]
    # border scenes: with integral refinement, park one animal per frame within ~2 output cells of the top / bottom border,
    # all in the same columns - patches that hang over a map border must not pick up the neighbouring sample's or channel's map
    plan["border"] = False
    if kind != "single" and plan.get("refinement") == "integral" and rng.random() < 0.5:
        plan["border"] = True
        st = "centroid" if kind == "topdown" else "bottomup"
        S = plan[st]["stride"]
        x0 = None
        for k, fr in enumerate(plan["frames"]):
            if not fr["animals"]:
                continue
            fH, fW = pw.frame_hw(plan, fr)
            e = c02.eff_scale(fH, fW, plan["max_hw"][0], plan["max_hw"][1])[0]
            cell = S / (plan[st]["scale"] * e)
            a = np.array(fr["animals"][0], dtype=float)
            vis = ~np.isnan(a).any(axis=1)
            anchor = plan.get("anchor")
            c = a[anchor] if (kind == "topdown" and anchor is not None and vis[anchor]) else (np.nanmin(a, axis=0) + np.nanmax(a, axis=0)) / 2
            if x0 is None:
                x0 = min(max(c[0], 6.0), min(pw.frame_hw(plan, g)[1] for g in plan["frames"]) - 7.0)
            d = rng.uniform(0.6, 2.2) * cell
            ty = d if k % 2 == 0 else (fH - 1 - d)
            a = a + np.array([x0 - c[0], ty - c[1]])
            a[:, 0] = np.clip(a[:, 0], 0.5, fW - 1.5)
            a[:, 1] = np.clip(a[:, 1], 0.5, fH - 1.5)
            # clipping must not pile two nodes onto one grid cell (a zero-length skeleton edge is not a pose in general position)
            vv = a[~np.isnan(a).any(axis=1)]
            dmin = min([float(np.abs(vv[i] - vv[j]).max()) for i in range(len(vv)) for j in range(i)] + [1e9])
            if dmin < max(3.0, 2.5 * cell):
                continue  # leave this frame's animal where it was
            fr["animals"] = [a.tolist()]
    if plan.get("centroid_only"):
        if not plan["border"]:
            # no crops in this mode: animals only need to be resolvable by the centroid stage, so frames can hold more of them
            c = plan["centroid"]
            bs = plan.get("blob_sigma", 0.0) if plan.get("frame_kind") == "blob" else 0.0
            for fr in plan["frames"]:
                if not fr["animals"] or rng.random() < 0.3:
                    continue
                fH, fW = pw.frame_hw(plan, fr)
                sig = c["scale"] * c02.eff_scale(fH, fW, plan["max_hw"][0], plan["max_hw"][1])[0]
                ext = 4.0
                margin = 4.0 * c["stride"] / sig + 3.0 + ext + 2.0 * bs
                sep = 8.0 * c["stride"] / sig + 2 * ext + 2.0 + 8.0 * bs
                if 2 * margin + 4 > min(fH, fW):
                    continue
                cents, animals = [], []
                for _a in range(rng.randint(2, 4)):
                    for _t in range(30):
                        cx, cy = rng.uniform(margin, fW - 1 - margin), rng.uniform(margin, fH - 1 - margin)
                        if all(max(abs(cx - q[0]), abs(cy - q[1])) > sep for q in cents):
                            cents.append((cx, cy))
                            pts = [[cx + rng.uniform(-ext / 2, ext / 2), cy + rng.uniform(-ext / 2, ext / 2)] for _ in range(plan["n_nodes"])]
                            if plan["n_nodes"] > 1 and rng.random() < 0.3:
                                for j in rng.sample(range(plan["n_nodes"]), rng.randint(1, plan["n_nodes"] - 1)):
                                    pts[j] = [float("nan"), float("nan")]
                            animals.append(pts)
                            break
                if animals:
                    fr["animals"] = animals
        # partially labelled frames: the image shows an animal the labels lack, so more centroids are detected than instances are labelled
        if rng.random() < 0.5:
            # sparsely labelled project: at most `lab` animals are labelled in any frame, so the instance table is narrower than
            # the number of centroids some frames produce
            lab = rng.choice([1, 1, 2])
            for fr in plan["frames"]:
                if len(fr["animals"]) > lab:
                    fr["unlabelled"] = sorted(rng.sample(range(len(fr["animals"])), len(fr["animals"]) - lab))
        elif rng.random() < 0.3:
            for fr in plan["frames"]:
                if len(fr["animals"]) >= 2 and rng.random() < 0.4:
                    fr["unlabelled"] = [rng.randrange(len(fr["animals"]))]
        # else: fully labelled - these dense frames are where a set max_instances actually binds (crowded frame next to a sparse one)
    if kind == "topdown":
        plan["max_instances"] = rng.choice([None, 1, 1, 2, 2])
        if plan.get("gt_centroids"):
            plan["max_instances"] = None  # labelled centroids carry no score to rank by; the limit does not apply to them
        if any(f.get("unlabelled") for f in plan["frames"]):
            # the instance table is cut to the labels' width in detection order (no limit "set"): a reference that is itself cut
            # cannot say which instances a score-ranked limit should have kept
            plan["max_instances"] = None
    if kind != "bottomup" and plan.get("refinement") == "integral" and plan.get("frame_kind") != "blob" and rng.random() < 0.5:
        # some (not all) frames come back with negative ringing around their peaks, as real networks' maps do
        ks = [f["k"] for f in plan["frames"] if f["animals"]]
        if len(ks) >= 2:
            plan["ringing"] = sorted(rng.sample(ks, rng.randint(1, len(ks) - 1)))
    plan["perm_seed"] = rng.randrange(1 << 30)
    plan["faults"] = []
    if rng.random() < 0.2:
        plan["faults"] = [{"kind": "read_error", "at": rng.randrange(n), "exc": "OSError"}]
    plan["sched"] = {"strategy": rng.choice(["uniform", "sticky", "reader_first", "consumer_first"]), "switch_p": 0.3}
    return plan


def describe(plan):
    d = {"kind": plan["kind"], "provider": plan["provider"], "batch": plan["batch"], "max_instances": plan.get("max_instances"),
         "refinement": plan["refinement"], "animals_per_frame": [len(f["animals"]) for f in plan["frames"]],
         "ids": [(f.get("vid", 0), f.get("fidx", i)) for i, f in enumerate(plan["frames"])], "faults": plan["faults"], "border": plan.get("border"),
         "sizes": plan.get("sizes"), "gt_centroids": plan.get("gt_centroids"), "centroid_only": plan.get("centroid_only")}
    for k in ("single", "centroid", "centered", "bottomup", "max_hw"):
        if k in plan:
            d[k] = plan[k]
    return d


def shrink(plan):
    fr = plan["frames"]
    if len(fr) > 1:
        for i in range(len(fr)):
            p = copy.deepcopy(plan)
            del p["frames"][i]
            p["faults"] = [f for f in p["faults"] if f["at"] < len(p["frames"])]
            yield p
    for i, f in enumerate(fr):
        if len(f["animals"]) > 0 and plan["kind"] != "single":
            for j in range(len(f["animals"])):
                p = copy.deepcopy(plan)
                del p["frames"][i]["animals"][j]
                if "unlabelled" in f:
                    u = [x - (x > j) for x in f["unlabelled"] if x != j]
                    if u:
                        p["frames"][i]["unlabelled"] = u
                    else:
                        p["frames"][i].pop("unlabelled")
                yield p
    for i, f in enumerate(fr):
        if f.get("unlabelled"):
            p = copy.deepcopy(plan)
            p["frames"][i].pop("unlabelled")
            yield p
    if plan["faults"]:
        p = copy.deepcopy(plan)
        p["faults"] = []
        yield p
    if plan["batch"] > 2:
        p = copy.deepcopy(plan)
        p["batch"] = plan["batch"] - 1
        yield p
    for k, v in (("refinement", None), ("max_hw", [None, None])):
        if plan.get(k) != v:
            p = copy.deepcopy(plan)
            p[k] = v
            yield p
    if plan.get("max_instances") is not None:
        p = copy.deepcopy(plan)
        p["max_instances"] = None
        yield p


def _key(f, i):
    return (f.get("vid", 0), f.get("fidx", i))


def per_frame(plan, records):
    """records -> {(video_idx, frame_idx): dict(insts=[(pts, vals, score)], orig=[..], eff=..)}"""
    out = {}
    kind = plan["kind"]
    for r in records:
        fidx = np.asarray(r["frame_idx"]).reshape(-1)
        vidx = np.asarray(r["video_idx"]).reshape(-1)
        for b in range(len(fidx)):
            key = (int(vidx[b]), int(fidx[b]))
            e = out.setdefault(key, {"insts": [], "orig": None, "eff": None})
            osz = np.asarray(r["orig_size"]).reshape(len(fidx), -1)[b].tolist()
            e["orig"] = osz
            e["eff"] = float(np.asarray(r["eff_scale"]).reshape(-1)[b])
            if kind == "single":
                e["insts"].append((np.asarray(r["pred_instance_peaks"][b], dtype=np.float64), np.asarray(r["pred_peak_values"][b], dtype=np.float64), 0.0))
            elif kind == "topdown" and plan.get("centroid_only"):
                # one record per batch: (B, max_inst, nodes, 2) padded with NaN rows up to the labelled maximum
                P = np.asarray(r["pred_instance_peaks"][b], dtype=np.float64).reshape(-1, plan["n_nodes"], 2)
                # (the repository stacks the values of all frames along axis 0: (B * max_inst, nodes))
                Vv = np.asarray(r["pred_peak_values"], dtype=np.float64).reshape(len(fidx), -1, plan["n_nodes"])[b]
                Cv = np.asarray(r["centroid_vals"][b], dtype=np.float64).reshape(-1)
                for i in range(P.shape[0]):
                    if not (np.isnan(P[i]).all() and np.isnan(Vv[i]).all()):
                        e["insts"].append((P[i], Vv[i], float(Cv[i]) if i < len(Cv) else float("nan")))
            elif kind == "topdown":
                bbox = np.asarray(r["instance_bbox"][b]).reshape(4, 2)
                e["insts"].append((np.asarray(r["pred_instance_peaks"][b], dtype=np.float64) + bbox[0], np.asarray(r["pred_peak_values"][b], dtype=np.float64),
                                   float(np.asarray(r["centroid_val"]).reshape(-1)[b])))
            else:
                P = np.asarray(r["pred_instance_peaks"][b], dtype=np.float64).reshape(-1, plan["n_nodes"], 2)
                Vv = np.asarray(r["pred_peak_values"][b], dtype=np.float64).reshape(-1, plan["n_nodes"])
                Sc = np.asarray(r["instance_scores"][b], dtype=np.float64).reshape(-1)
                for i in range(P.shape[0]):
                    e["insts"].append((P[i], Vv[i], float(Sc[i]) if i < len(Sc) else 0.0))
    return out


def same_instances(a, b, tol=1e-4):
    """Multiset equality of instance lists; returns None or a description."""
    if len(a) != len(b):
        return f"{len(a)} instances vs {len(b)}"
    used = set()
    for (p, v, s) in a:
        found = None
        for j, (q, w, t) in enumerate(b):
            if j in used:
                continue
            if np.allclose(p, q, atol=tol, equal_nan=True) and np.allclose(v, w, atol=tol, equal_nan=True) and (abs(s - t) <= tol or (s != s and t != t)):
                found = j
                break
        if found is None:
            return f"instance at {np.round(p, 3).tolist()} (values {np.round(v, 4).tolist()}, score {s:.5f}) has no equal in the reference {[np.round(q, 3).tolist() for q, _, _ in b]}"
        used.add(found)
    return None


def execute(plan, choices=None):
    violations = []
    probes = {"frames_compared": 0, "batches_with_mixed_content": 0, "empty_frames_in_batch": 0, "max_instances_binding": 0,
              "partial_last_batch": 0, "fault_cut_stream": 0, "permuted_run_compared": 0, "two_videos": 0, "degenerate_tie_scene_skipped": 0,
              "border_scene": int(bool(plan.get("border"))), "whole_batch_empty": 0, "batch_larger_than_paf_grid": int(bool(plan.get("tiny"))), "mixed_frame_sizes": int("sizes" in plan and len({tuple(x) for x in plan["sizes"]}) > 1),
              "ground_truth_centroid_runs": int(bool(plan.get("gt_centroids"))), "centroid_only_runs": int(bool(plan.get("centroid_only"))),
              "videos_share_file_name": int(bool(plan.get("same_filename"))), "frames_with_negative_ringing": len(plan.get("ringing", ())), "partially_labelled_frames": sum(1 for f in plan["frames"] if f.get("unlabelled")),
              "more_centroids_than_label_table_rows": 0}

    def V(kind, where, detail):
        violations.append({"kind": kind, "sig": f"{kind}:{where}", "detail": detail})

    kind, prov = plan["kind"], plan["provider"]
    frames = plan["frames"]
    if plan.get("centroid_only"):
        width = max([len(f["animals"]) - len(f.get("unlabelled", ())) for f in frames] + [1])
        probes["more_centroids_than_label_table_rows"] = sum(1 for f in frames if len(f["animals"]) > width)
    n = len(frames)
    digests = []

    tie = {"min": float("inf")}

    def run(**kw):
        rec, end, err, sim, nets = pw.run_predictor(plan, prov, **kw)
        for n in nets.values():
            tie["min"] = min(tie["min"], n.min_tie)
        return rec, end, err, sim

    try:
        # ---- A: the stream at batch size b
        recA, end, err, sim = run(choices=choices)
        digests.append(sim.digest())
        if sim.failure:
            V(sim.failure["kind"], kind, sim.failure["detail"])
        elif end != "ok":
            V("inference_failed", f"{kind}:{(err or '').split(':')[0]}", f"batched stream ended with {end}: {err}")
        cut = n
        for f in plan["faults"]:
            cut = min(cut, f["at"])
        if cut < n:
            probes["fault_cut_stream"] = 1
        A = per_frame(plan, recA) if not violations else {}
        # ---- B: every delivered frame alone, fresh predictor, no limit
        ref = {}
        ref_unlimited = {}
        if not violations and plan.get("centroid_only"):
            # the padded instance table is as wide as the labels file's busiest frame, so a frame cannot be cut out of its file:
            # the reference is the same file streamed one frame per batch by a fresh predictor
            rec, end1, err1, sim1, _ = pw.run_predictor(dict(plan), prov, batch=1, max_instances=None)  # same file, same read fault
            if end1 != "ok" or sim1.failure:
                V("inference_failed", f"{kind}:alone", f"stream at batch size 1: {end1} {err1} {sim1.failure}")
            else:
                pf = per_frame(plan, rec)
                for i in range(cut):
                    key = _key(frames[i], i)
                    ref_unlimited[key] = pf.get(key, {"insts": [], "orig": None, "eff": None})
        elif not violations:
            for i in range(cut):
                p1 = dict(plan)
                p1["faults"] = []
                rec, end1, err1, sim1, _ = pw.run_predictor(p1, prov, batch=1, frames_subset=[i], max_instances=None)
                if end1 != "ok" or sim1.failure:
                    V("inference_failed", f"{kind}:alone", f"frame {i} alone: {end1} {err1} {sim1.failure}")
                    break
                pf = per_frame(plan, rec)
                key = _key(frames[i], 0 if prov == "video" else i)
                if prov == "video":
                    pf = {(0, i): v for (_, _), v in pf.items()}
                    key = (0, i)
                ref_unlimited[key] = pf.get(key, {"insts": [], "orig": None, "eff": None})
        # ---- compare A with the reference
        if not violations:
            want_keys = [(_key(frames[i], i) if prov != "video" else (0, i)) for i in range(cut)]
            # batch composition probes
            b = plan["batch"]
            for s0 in range(0, cut, b):
                grp = frames[s0:min(s0 + b, cut)]
                if len(grp) >= 2 and len({len(g["animals"]) for g in grp}) > 1:
                    probes["batches_with_mixed_content"] += 1
                if len(grp) >= 2 and any(len(g["animals"]) == 0 for g in grp):
                    probes["empty_frames_in_batch"] += 1
                if len(grp) < b:
                    probes["partial_last_batch"] = 1
                if s0 > 0 and len(grp) == b and all(len(g["animals"]) == 0 for g in grp):
                    probes["whole_batch_empty"] = 1
            extra = set(A) - set(want_keys)
            if extra:
                V("wrong_index", kind, f"records carry (video,frame) indices {sorted(extra)} that no delivered frame has; delivered {want_keys}")
            for i, key in enumerate(want_keys):
                if violations:
                    break
                r = ref_unlimited[key]
                exp = list(r["insts"])
                mi = plan.get("max_instances")
                if kind == "topdown" and mi is not None and len(exp) > mi:
                    probes["max_instances_binding"] += 1
                    exp = sorted(exp, key=lambda t: -t[2])[:mi]
                got = A.get(key, {"insts": [], "orig": None, "eff": None})
                gi = list(got["insts"])
                d = same_instances(gi, exp)
                probes["frames_compared"] += 1
                if d:
                    V("depends_on_batch", kind,
                      f"frame {i} (video,frame)={key} holding {len(frames[i]['animals'])} animals: batched at size {b} (batch-mates hold "
                      f"{[len(g['animals']) for g in frames[(i // b) * b:(i // b) * b + b]]} animals) differs from the same frame alone: {d}; cfg={describe(plan)}")
                    break
                if got["orig"] is not None and r["orig"] is not None and (got["orig"] != r["orig"] or abs(got["eff"] - r["eff"]) > 1e-6):
                    V("wrong_index", f"{kind}:orig_size", f"frame {key}: orig_size/eff_scale {got['orig']}/{got['eff']} vs alone {r['orig']}/{r['eff']}")
                    break
        # ---- C: permuted order
        if not violations and cut == n and n > 1:
            order = list(range(n))
            random.Random(plan["perm_seed"]).shuffle(order)
            p2 = dict(plan)
            p2["faults"] = []
            recC, endC, errC, simC, _ = pw.run_predictor(p2, prov, frames_subset=order)
            if endC != "ok" or simC.failure:
                V("inference_failed", f"{kind}:permuted", f"{endC} {errC} {simC.failure}")
            else:
                C = per_frame(plan, recC)
                if prov == "video":
                    C = {(0, order[k[1]]): v for k, v in C.items()}
                probes["permuted_run_compared"] = 1
                for key in set(A) | set(C):
                    ga = A.get(key, {"insts": []})["insts"]
                    gc = C.get(key, {"insts": []})["insts"]
                    d = same_instances(ga, gc)
                    if d:
                        V("depends_on_order", kind, f"frame {key}: result changes when the frames are processed in order {order}: {d}")
                        break
    except Exception as ex:
        import traceback

        V("inference_failed", f"{kind}:{type(ex).__name__}", f"{type(ex).__name__}: {ex}\n{traceback.format_exc()[-900:]}")
    if violations and violations[0]["kind"] in ("depends_on_batch", "depends_on_order") and tie["min"] < 2e-3:
        violations = []  # a local-peak target exactly half-way between two cells: the reference itself is ambiguous
        probes["degenerate_tie_scene_skipped"] = 1
    if prov == "labels":
        probes["two_videos"] = int(len({f.get("vid", 0) for f in frames}) > 1)
    return {
        "violations": violations,
        "digest": hashlib.blake2b(repr((digests, [v["sig"] for v in violations], probes["frames_compared"])).encode(), digest_size=16).hexdigest(),
        "choices": [],
        "shape": hashlib.blake2b(repr(describe(plan)).encode(), digest_size=8).hexdigest(),
        "nontrivial": probes["batches_with_mixed_content"] > 0 or (probes["frames_compared"] >= 2 and plan["batch"] >= 2),
        "probes": probes,
        "faults": {"read_error": probes["fault_cut_stream"]},
        "sim_us": 0,
        "steps": 0,
        "fault_free": not plan["faults"],
        "states": [],
        "outcome": {"frames_compared": probes["frames_compared"]},
    }
