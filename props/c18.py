"""C18 - interchangeable data-pipeline implementations produce the same samples."""

import copy
import hashlib
import os
import random
import shutil

import litdata as ld
import numpy as np
import torch
from omegaconf import OmegaConf

from worlds import dataworld as dw

from sleap_nn.data import get_data_chunks as gdc  # noqa: E402
from sleap_nn.data import streaming_datasets as sd  # noqa: E402
from sleap_nn.data.confidence_maps import (  # noqa: E402
    ConfidenceMapGenerator, MultiConfidenceMapGenerator, generate_confmaps, generate_multiconfmaps)
from sleap_nn.data.edge_maps import PartAffinityFieldsGenerator, generate_pafs  # noqa: E402
from sleap_nn.data.instance_centroids import InstanceCentroidFinder, generate_centroids  # noqa: E402
from sleap_nn.data.instance_cropping import InstanceCropper, generate_crops  # noqa: E402
from sleap_nn.data.normalization import Normalizer, apply_normalization, convert_to_grayscale, convert_to_rgb  # noqa: E402
from sleap_nn.data.providers import get_max_instances  # noqa: E402
from sleap_nn.data.resizing import PadToStride, Resizer, apply_pad_to_stride, apply_resizer  # noqa: E402

ID = "C18"
LEVEL = "exploration"
RULE = (
    "one run = one seeded label set + one model type + one configuration (scale, max_stride, strides/sigmas, is_rgb, max_hw, "
    "anchor, crop); the in-memory dataset is the reference model, the npz-chunk dataset (real np.savez_compressed / np.load "
    "round trip, incl. re-open with use_existing_chunks) and the chunk-function -> streaming __getitem__ path (litdata store "
    "replaced by an in-memory list) are read in a seeded order and compared key by key; a second part iterates each legacy "
    "DataPipe block over seeded examples and compares with its functional counterpart. Non-trivial = at least one sample "
    "compared across frameworks (or one block compared); distinct = digest of (model type, config class, scene shape, block)"
)
COMPONENTS = {
    "real": ["custom_datasets.* (in-memory + np_chunks branches)", "get_data_chunks.*_data_chunks", "streaming_datasets.*StreamingDataset.__init__/__getitem__",
             "DataPipe blocks Normalizer/Resizer/PadToStride/InstanceCentroidFinder/InstanceCropper/ConfidenceMapGenerator/MultiConfidenceMapGenerator/PartAffinityFieldsGenerator",
             "np.savez_compressed / np.load on tmpfs", "PIL round trip (ToPILImage / PILToTensor / ToTensor)"],
    "stub": ["litdata.optimize + binary chunk store -> in-memory list that hands back deep copies of what the chunk functions produced",
             "ld.StreamingDataset.__init__/__getitem__ replaced for the duration of a run"],
}
ASSUMPTIONS = [
    "compared only where the documentation prescribes the same order of operations: all model types at scale 1; single-instance, centroid, bottom-up at any scale",
    "images equal within 1/255 + 1e-6 (both non-reference paths quantise through 8-bit PIL, ToPILImage truncates); keypoints/centroids within 1e-4; maps within 1e-5 (2e-2 where they depend on quantised crops: none do)",
    "every labelled frame holds at least one non-empty user instance (frame filtering is C11's business)",
]
TIERS = {
    "quick": {"runs": 9000, "time_cap_s": 80, "chunk": 40, "det_inproc": 6, "det_fresh": 4, "minimise_s": 60},
    "thorough": {"runs": 300000, "time_cap_s": 1200, "chunk": 100, "det_inproc": 30, "det_fresh": 15, "minimise_s": 180},
}
KINDS = ["single", "centroid", "centered", "bottomup"]
BLOCKS = ["Normalizer", "Resizer", "PadToStride", "InstanceCentroidFinder", "InstanceCropper", "ConfidenceMapGenerator",
          "MultiConfidenceMapGenerator", "PartAffinityFieldsGenerator"]
COMPARE = {
    "single": ["image", "instances", "confidence_maps"],
    "centroid": ["image", "centroids", "centroids_confidence_maps"],
    "centered": ["instance_image", "instance", "centroid", "confidence_maps"],
    "bottomup": ["image", "instances", "confidence_maps", "part_affinity_fields"],
}
META = ["frame_idx", "video_idx", "orig_size"]  # num_instances is bookkeeping (centered: counts empty instances in one path only), not a target


def gen_plan(rng, index, tier):
    if index % 4 == 3:
        scene = dw.gen_scene(rng, single=False, max_frames=2, max_animals=3, allow_empty_inst=False, allow_pred=False, nan_p=0.3, two_videos_p=0.0)
        return {"mode": "block", "block": BLOCKS[(index // 4) % len(BLOCKS)], "scene": scene, "p": rng.randrange(1 << 30)}
    kind = KINDS[index % 4] if index < 12 else rng.choice(KINDS)
    scene = dw.gen_scene(rng, single=(kind == "single"), max_frames=3, max_animals=3, allow_empty_inst=(kind != "single"),
                         allow_pred=True, nan_p=0.3)
    # every frame keeps a non-empty user instance
    for f in scene["frames"]:
        users = [i for i in f["instances"] if not i["pred"]]
        if not any(any(p[0] == p[0] for p in i["pts"]) for i in users):
            users[0]["pts"][0] = [12.0, 13.0]
    cfg = dw.gen_ds_cfg(rng, scene, kind, scale_one=(kind == "centered"))
    cfg["is_rgb"] = rng.random() < 0.6
    n = 12
    order = [rng.randrange(n) for _ in range(rng.randint(2, 8))]
    return {"mode": "frameworks", "kind": kind, "scene": scene, "cfg": cfg, "order": order, "reopen": rng.random() < 0.4,
            "stale_dir": rng.random() < 0.3}


def describe(plan):
    d = {"mode": plan["mode"], "sizes": plan["scene"]["sizes"],
         "frames": [[("".join("N" if p[0] != p[0] else "x" for p in i["pts"]) + ("p" if i["pred"] else "")) for i in f["instances"]] for f in plan["scene"]["frames"]]}
    if plan["mode"] == "block":
        d["block"] = plan["block"]
    else:
        d["kind"] = plan["kind"]
        d["cfg"] = {k: plan["cfg"][k] for k in ("scale", "max_stride", "output_stride", "paf_stride", "max_hw", "is_rgb", "anchor", "crop_hw")}
        d["order"] = plan["order"]
    return d


def shrink(plan):
    fr = plan["scene"]["frames"]
    if len(fr) > 1:
        for i in range(len(fr)):
            p = copy.deepcopy(plan)
            del p["scene"]["frames"][i]
            yield p
    for i, f in enumerate(fr):
        if len(f["instances"]) > 1:
            for j in range(len(f["instances"])):
                p = copy.deepcopy(plan)
                del p["scene"]["frames"][i]["instances"][j]
                if any((not x["pred"]) and any(q[0] == q[0] for q in x["pts"]) for x in p["scene"]["frames"][i]["instances"]):
                    yield p
    if plan["mode"] == "frameworks":
        if len(plan["order"]) > 1:
            for i in range(len(plan["order"])):
                p = copy.deepcopy(plan)
                del p["order"][i]
                yield p
        if plan["reopen"]:
            p = copy.deepcopy(plan)
            p["reopen"] = False
            yield p
        if plan.get("stale_dir"):
            p = copy.deepcopy(plan)
            p["stale_dir"] = False
            yield p
        c = plan["cfg"]
        for k, v in (("scale", 1.0), ("max_stride", 1), ("output_stride", 1), ("paf_stride", 1), ("is_rgb", True), ("anchor", None)):
            if c[k] != v:
                p = copy.deepcopy(plan)
                p["cfg"][k] = v
                yield p
        mh = [max(s[0] for s in plan["scene"]["sizes"]), max(s[1] for s in plan["scene"]["sizes"])]
        if c["max_hw"] != mh:
            p = copy.deepcopy(plan)
            p["cfg"]["max_hw"] = mh
            yield p


# ---------------------------------------------------------------- streaming stub
class _Store:
    current = None


def _fake_sd_init(self, *a, **k):
    self._verif_store = _Store.current


def _fake_sd_getitem(self, index):
    return copy.deepcopy(self._verif_store[index])


class streaming_stub:
    def __init__(self, store):
        self.store = store

    def __enter__(self):
        self.saved = (ld.StreamingDataset.__init__, ld.StreamingDataset.__getitem__)
        _Store.current = self.store
        ld.StreamingDataset.__init__ = _fake_sd_init
        ld.StreamingDataset.__getitem__ = _fake_sd_getitem
        return self

    def __exit__(self, *a):
        ld.StreamingDataset.__init__, ld.StreamingDataset.__getitem__ = self.saved
        _Store.current = None
        return False


def build_streaming(kind, labels, cfg, scene):
    """Chunk generation (real functions) -> in-memory store -> real *StreamingDataset."""
    dc = OmegaConf.create({"preprocessing": {"is_rgb": cfg["is_rgb"], "max_height": cfg["max_hw"][0], "max_width": cfg["max_hw"][1]},
                           "user_instances_only": cfg.get("user_instances_only", True)})
    uio = cfg.get("user_instances_only", True)
    max_inst = get_max_instances(labels)
    store = []
    inputs = [(lf, labels.videos.index(lf.video)) for lf in labels]
    for x in inputs:
        if kind == "single":
            store.append(gdc.single_instance_data_chunks(x, data_config=dc, max_hw=tuple(cfg["max_hw"]), user_instances_only=uio, scale=cfg["scale"]))
        elif kind == "centroid":
            store.append(gdc.centroid_data_chunks(x, data_config=dc, max_instances=max_inst, anchor_ind=cfg["anchor"], max_hw=tuple(cfg["max_hw"]),
                                                  user_instances_only=uio, scale=cfg["scale"]))
        elif kind == "bottomup":
            store.append(gdc.bottomup_data_chunks(x, data_config=dc, max_instances=max_inst, max_hw=tuple(cfg["max_hw"]), user_instances_only=uio,
                                                  scale=cfg["scale"]))
        else:
            for res in gdc.centered_instance_data_chunks(x, data_config=dc, max_instances=max_inst, crop_size=tuple(cfg["crop_hw"]),
                                                         anchor_ind=cfg["anchor"], max_hw=tuple(cfg["max_hw"]), user_instances_only=uio, scale=cfg["scale"]):
                store.append(res)
    cm = OmegaConf.create({"sigma": cfg["sigma"], "output_stride": cfg["output_stride"], "anchor_part": cfg["anchor"]})
    with streaming_stub(store):
        if kind == "single":
            ds = sd.SingleInstanceStreamingDataset(confmap_head=cm, max_stride=cfg["max_stride"], apply_aug=False, input_dir="unused")
        elif kind == "centroid":
            ds = sd.CentroidStreamingDataset(confmap_head=cm, max_stride=cfg["max_stride"], apply_aug=False, input_dir="unused")
        elif kind == "bottomup":
            pf = OmegaConf.create({"sigma": cfg["paf_sigma"], "output_stride": cfg["paf_stride"]})
            ds = sd.BottomUpStreamingDataset(confmap_head=cm, pafs_head=pf, edge_inds=labels.skeletons[0].edge_inds, max_stride=cfg["max_stride"],
                                             apply_aug=False, input_dir="unused")
        else:
            ds = sd.CenteredInstanceStreamingDataset(confmap_head=cm, crop_hw=tuple(cfg["crop_hw"]), max_stride=cfg["max_stride"], apply_aug=False,
                                                     input_scale=cfg["scale"], input_dir="unused")
    return ds, store


def cmp_samples(kind, ref, other, name):
    """None or a description of the first disagreement."""
    for k in COMPARE[kind]:
        if k not in other:
            return f"{name}: key {k} missing"
        a, b = torch.as_tensor(ref[k]).double(), torch.as_tensor(other[k]).double()
        if k in ("instances", "instance", "centroids", "centroid"):
            # a redundant singleton axis is representation, not content (the statement speaks of "the same keypoints")
            a, b = a.reshape(-1, 2), b.reshape(-1, 2)
        if a.shape != b.shape:
            return f"{name}: {k} has shape {tuple(b.shape)}, in-memory dataset gives {tuple(a.shape)}"
        if not torch.equal(torch.isnan(a), torch.isnan(b)):
            return f"{name}: {k} NaN pattern differs from the in-memory dataset"
        tol = (1.0 / 255.0 + 1e-6) if "image" in k else (1e-4 if k in ("instances", "instance", "centroids", "centroid") else 1e-5)
        d = (torch.nan_to_num(a) - torch.nan_to_num(b)).abs()
        if d.numel() and float(d.max()) > tol:
            idx = int(torch.argmax(d))
            return (f"{name}: {k} differs from the in-memory dataset by {float(d.max()):.5g} (> {tol:.2g}) at flat index {idx}: "
                    f"{float(b.flatten()[idx]):.5g} vs {float(a.flatten()[idx]):.5g}")
    for k in META:
        if k in ref and k in other:
            a, b = torch.as_tensor(ref[k]).double().flatten(), torch.as_tensor(other[k]).double().flatten()
            if a.shape != b.shape or not torch.equal(a, b):
                return f"{name}: {k} = {b.tolist()} vs in-memory {a.tolist()}"
    return None


def execute(plan, choices=None):
    from worlds import simexec

    with simexec.installed(seed=plan.get("seed", 0), choices=choices) as tx:
        res = _execute(plan, choices)
    return _with_threads(res, tx)


def _with_threads(res, tx):
    """Fold what the simulated thread pool saw into the run's result (inert unless the code under test used a pool)."""
    res["choices"] = tx.choices.log
    res["probes"]["thread_pool_tasks_scheduled"] = tx.stats["tasks_submitted"]
    res["steps"] = res.get("steps", 0) + tx.stats["scheduler_steps"]
    if tx.used:
        res["digest"] = hashlib.blake2b((res["digest"] + repr(tx.choices.log)).encode(), digest_size=16).hexdigest()
    if tx.failure and tx.failure["kind"] != "harness" and not res["violations"]:
        res["violations"].append({"kind": tx.failure["kind"], "sig": tx.failure["kind"] + ":thread-pool", "detail": tx.failure["detail"]})
    return res


def _execute(plan, choices=None):
    violations = []
    trace = []
    probes = {"npz_samples_compared": 0, "streaming_samples_compared": 0, "reopened_npz_compared": 0, "scale_not_one": 0,
              "size_matched": 0, "grayscale_conversion": 0, "blocks_compared": 0, "missing_anchor_case": 0, "stale_chunks_in_dir": 0}

    def V(kind, where, detail):
        violations.append({"kind": kind, "sig": f"{kind}:{where}", "detail": detail})

    scene = plan["scene"]
    if plan["mode"] == "block":
        _run_block(plan, V, probes, trace)
    else:
        kind, cfg = plan["kind"], plan["cfg"]
        root = f"/dev/shm/verif-c18-{os.getpid()}-{plan.get('seed', 0) % 100000}"
        shutil.rmtree(root, ignore_errors=True)
        os.makedirs(root)
        try:
            ref = dw.build_dataset(kind, dw.build_labels(scene), cfg)
            if plan.get("stale_dir"):
                # the chunk directory was used before (an earlier run on the project as it looked before the user edited it)
                dw.build_dataset(kind, dw.build_labels(dw.stale_scene(scene)), cfg, np_chunks=True, np_chunks_path=os.path.join(root, "npz"))
                probes["stale_chunks_in_dir"] = 1
            npz = dw.build_dataset(kind, dw.build_labels(scene), cfg, np_chunks=True, np_chunks_path=os.path.join(root, "npz"))
            lab_s = dw.build_labels(scene)
            stream, store = build_streaming(kind, lab_s, cfg, scene)
            n = len(ref)
            if len(npz) != n:
                V("length_differs", f"{kind}:npz", f"npz dataset has {len(npz)} samples, in-memory {n}")
            if len(store) != n:
                V("length_differs", f"{kind}:streaming", f"chunk functions produced {len(store)} samples, in-memory dataset has {n}")
            if cfg["scale"] != 1.0:
                probes["scale_not_one"] = 1
            if any(list(s) != list(cfg["max_hw"]) for s in scene["sizes"]):
                probes["size_matched"] = 1
            if not cfg["is_rgb"]:
                probes["grayscale_conversion"] = 1
            reopened = None
            with streaming_stub(store):
                for step, i0 in enumerate(plan["order"]):
                    if violations or n == 0:
                        break
                    i = i0 % n
                    r = ref[i]
                    trace.append(("cmp", i))
                    if plan["reopen"] and step == len(plan["order"]) // 2:
                        reopened = dw.build_dataset(kind, dw.build_labels(scene), cfg, np_chunks=True, np_chunks_path=os.path.join(root, "npz"),
                                                    use_existing_chunks=True)
                    d = cmp_samples(kind, r, npz[i], "npz-chunk dataset")
                    probes["npz_samples_compared"] += 1
                    if d:
                        V("frameworks_disagree", f"{kind}:npz:{d.split(':')[1].split()[0]}", f"sample {i} ({kind}, cfg {describe(plan)['cfg']}): {d}")
                        break
                    if reopened is not None:
                        d = cmp_samples(kind, r, reopened[i], "re-opened npz-chunk dataset")
                        probes["reopened_npz_compared"] += 1
                        if d:
                            V("frameworks_disagree", f"{kind}:npz-reopen:{d.split(':')[1].split()[0]}", f"sample {i}: {d}")
                            break
                    d = cmp_samples(kind, r, stream[i], "chunk-function + streaming dataset")
                    probes["streaming_samples_compared"] += 1
                    if d:
                        V("frameworks_disagree", f"{kind}:streaming:{d.split(':')[1].split()[0]}", f"sample {i} ({kind}, cfg {describe(plan)['cfg']}): {d}")
                        break
        except Exception as e:
            import traceback

            V("framework_failed", f"{kind}:{type(e).__name__}", f"{type(e).__name__}: {e}\n{traceback.format_exc()[-900:]}")
        finally:
            shutil.rmtree(root, ignore_errors=True)
        a = cfg["anchor"]
        if a is not None:
            for f in scene["frames"]:
                for x in f["instances"]:
                    if x["pts"][a][0] != x["pts"][a][0] and any(p[0] == p[0] for p in x["pts"]):
                        probes["missing_anchor_case"] = 1
    n_cmp = probes["npz_samples_compared"] + probes["streaming_samples_compared"] + probes["blocks_compared"]
    return {
        "violations": violations,
        "digest": hashlib.blake2b(repr((trace, [v["sig"] for v in violations])).encode(), digest_size=16).hexdigest(),
        "choices": [],
        "shape": hashlib.blake2b(repr(describe(plan)).encode(), digest_size=8).hexdigest(),
        "nontrivial": n_cmp > 0,
        "probes": probes,
        "faults": {},
        "sim_us": 0,
        "steps": len(trace),
        "fault_free": True,
        "states": [],
        "outcome": {"compared": n_cmp},
    }


def _examples(scene, r, is_rgb=True):
    out = []
    for f in scene["frames"]:
        H, W = scene["sizes"][f["video"]]
        img = torch.from_numpy(dw.coord_frame(H, W, 90).transpose(2, 0, 1)[None])  # uint8 (1,3,H,W)
        inst = torch.tensor([[i["pts"] for i in f["instances"]]], dtype=torch.float32)
        out.append({"image": img, "instances": inst, "num_instances": inst.shape[1],
                    "frame_idx": torch.tensor(f["frame_idx"]), "video_idx": torch.tensor(f["video"]),
                    "orig_size": torch.Tensor([H, W])})
    return out


def _teq(a, b, tol=1e-6):
    a, b = torch.as_tensor(a).double(), torch.as_tensor(b).double()
    if a.shape != b.shape or not torch.equal(torch.isnan(a), torch.isnan(b)):
        return False
    return float((torch.nan_to_num(a) - torch.nan_to_num(b)).abs().max()) <= tol if a.numel() else True


def _run_block(plan, V, probes, trace):
    scene, blk = plan["scene"], plan["block"]
    r = random.Random(plan["p"])
    exs = _examples(scene, r)
    float_exs = [dict(e, image=apply_normalization(e["image"])) for e in copy.deepcopy(exs)]

    def bad(detail):
        V("block_differs", blk, f"DataPipe block {blk} disagrees with its functional counterpart: {detail}")

    trace.append(blk)
    try:
        if blk == "Normalizer":
            is_rgb = r.random() < 0.5
            src = copy.deepcopy(exs)
            if r.random() < 0.5:
                for e in src:
                    e["image"] = e["image"][:, :1]
            want = []
            for e in copy.deepcopy(src):
                im = apply_normalization(e["image"])
                want.append(convert_to_rgb(im) if is_rgb else convert_to_grayscale(im))
            got = [e["image"] for e in Normalizer(copy.deepcopy(src), is_rgb=is_rgb)]
            for g, w in zip(got, want):
                if not _teq(g, w):
                    return bad(f"is_rgb={is_rgb}: image differs (shape {tuple(g.shape)} vs {tuple(w.shape)})")
        elif blk == "Resizer":
            sc = r.choice([0.5, 0.75, 1.0, 1.25, 2.0])
            got = list(Resizer(copy.deepcopy(float_exs), scale=sc))
            for g, e in zip(got, copy.deepcopy(float_exs)):
                wi, wk = apply_resizer(e["image"], e["instances"], scale=sc)
                if not _teq(g["image"], wi) or not _teq(g["instances"], wk):
                    return bad(f"scale={sc}")
        elif blk == "PadToStride":
            ms = r.choice([1, 2, 8, 16, 32])
            got = list(PadToStride(copy.deepcopy(float_exs), max_stride=ms))
            for g, e in zip(got, copy.deepcopy(float_exs)):
                if not _teq(g["image"], apply_pad_to_stride(e["image"], ms)):
                    return bad(f"max_stride={ms}")
        elif blk == "InstanceCentroidFinder":
            a = r.choice([None, 0, 1])
            got = list(InstanceCentroidFinder(copy.deepcopy(float_exs), anchor_ind=a))
            for g, e in zip(got, copy.deepcopy(float_exs)):
                if not _teq(g["centroids"], generate_centroids(e["instances"], anchor_ind=a)):
                    return bad(f"anchor_ind={a}")
        elif blk == "InstanceCropper":
            ch = (r.choice([16, 32, 48]), r.choice([16, 32, 48]))
            src = copy.deepcopy(float_exs)
            for e in src:
                e["centroids"] = generate_centroids(e["instances"].clone(), anchor_ind=None)
            # the block re-yields one dict it keeps updating: snapshot every item as a consumer would use it
            got = [dict(g) for g in InstanceCropper(copy.deepcopy(src), crop_hw=ch)]
            want = []
            for e in src:
                for k in range(e["num_instances"]):
                    want.append(generate_crops(e["image"], e["instances"][0, k], e["centroids"][0, k], ch))
            if len(got) != len(want):
                return bad(f"{len(got)} crops vs {len(want)} from generate_crops")
            for g, w in zip(got, want):
                for k in ("instance_image", "instance_bbox", "instance", "centroid"):
                    if not _teq(g[k], w[k], 1e-5):
                        return bad(f"crop_hw={ch}: key {k}")
        elif blk == "ConfidenceMapGenerator":
            sg, st = r.choice([1.0, 1.5, 3.0]), r.choice([1, 2, 4])
            src = []
            for e in copy.deepcopy(float_exs):
                src.append({"instance_image": e["image"], "instance": e["instances"][:, 0]})
            got = list(ConfidenceMapGenerator(copy.deepcopy(src), sigma=sg, output_stride=st, image_key="instance_image", instance_key="instance"))
            for g, e in zip(got, src):
                w = generate_confmaps(e["instance"], img_hw=tuple(e["instance_image"].shape[-2:]), sigma=sg, output_stride=st)
                if not _teq(g["confidence_maps"], w, 1e-6):
                    return bad(f"sigma={sg} stride={st}")
        elif blk == "MultiConfidenceMapGenerator":
            sg, st, cen = r.choice([1.0, 1.5, 3.0]), r.choice([1, 2, 4]), r.random() < 0.5
            src = copy.deepcopy(float_exs)
            for e in src:
                e["centroids"] = generate_centroids(e["instances"].clone(), anchor_ind=None)
            got = list(MultiConfidenceMapGenerator(copy.deepcopy(src), sigma=sg, output_stride=st, centroids=cen))
            for g, e in zip(got, src):
                if cen:
                    w = generate_multiconfmaps(e["centroids"], img_hw=tuple(e["image"].shape[-2:]), num_instances=e["num_instances"], sigma=sg, output_stride=st, is_centroids=True)
                    gg = g["centroids_confidence_maps"]
                else:
                    w = generate_multiconfmaps(e["instances"], img_hw=tuple(e["image"].shape[-2:]), num_instances=e["num_instances"], sigma=sg, output_stride=st, is_centroids=False)
                    gg = g["confidence_maps"]
                if not _teq(gg, w, 1e-6):
                    return bad(f"sigma={sg} stride={st} centroids={cen}")
        elif blk == "PartAffinityFieldsGenerator":
            if not scene["edges"]:
                return
            sg, st, fl = r.choice([1.5, 3.0]), r.choice([1, 2, 4]), r.random() < 0.5
            ei = torch.Tensor(scene["edges"])
            got = list(PartAffinityFieldsGenerator(copy.deepcopy(float_exs), sigma=sg, output_stride=st, edge_inds=ei, flatten_channels=fl))
            for g, e in zip(got, copy.deepcopy(float_exs)):
                w = generate_pafs(e["instances"], img_hw=tuple(e["image"].shape[-2:]), sigma=sg, output_stride=st, edge_inds=ei, flatten_channels=fl)
                if not _teq(g["part_affinity_fields"], w, 1e-6):
                    return bad(f"sigma={sg} stride={st} flatten={fl}")
        probes["blocks_compared"] += 1
    except Exception as e:
        import traceback

        V("block_failed", f"{blk}:{type(e).__name__}", f"{type(e).__name__}: {e}\n{traceback.format_exc()[-700:]}")
