"""C11 - datasets never alter or invent labels; the same index gives the same sample."""

import copy
import hashlib
import os
import random
import shutil

import numpy as np
import torch

from worlds import dataworld as dw

from sleap_nn.data import custom_datasets as cd  # noqa: E402
from sleap_nn.data.augmentation import apply_geometric_augmentation, apply_intensity_augmentation  # noqa: E402
from sleap_nn.data.confidence_maps import generate_confmaps, generate_multiconfmaps  # noqa: E402
from sleap_nn.data.edge_maps import generate_pafs  # noqa: E402
from sleap_nn.data.instance_centroids import generate_centroids  # noqa: E402
from sleap_nn.data.instance_cropping import find_instance_crop_size, generate_crops, make_centered_bboxes  # noqa: E402
from sleap_nn.data.resizing import apply_pad_to_stride, apply_resizer, apply_sizematcher  # noqa: E402

ID = "C11"
LEVEL = "exploration"
RULE = (
    "one run = one seeded label set (1-2 videos, 1-4 frames, 1-3 animals, NaN patterns incl. missing anchor, empty and "
    "predicted instances) + 1-3 datasets (class x in-memory/npz x anchor x scale x strides) + a history of 5-40 operations "
    "(get(i) in any order, next(), DataLoader epoch with a seeded order, reopen npz with use_existing_chunks, functional-API "
    "calls, RNG jumps); after every operation: labels and call arguments bit-identical to pristine copies, sample(i) "
    "bit-identical to its first read and to a fresh dataset built from a pristine copy, NaN-in => NaN-out / zero map, "
    "len == number of non-empty instances/frames. Non-trivial = some index read at least twice with another read in "
    "between, or a helper call on data with a NaN; distinct = digest of (dataset kinds/config classes, op-kind sequence, NaN pattern)"
)
COMPONENTS = {
    "real": ["SingleInstance/Centroid/CenteredInstance/BottomUp Dataset (+npz chunks via np.savez_compressed/np.load)", "process_lf",
             "generate_centroids, generate_crops, make_centered_bboxes, apply_resizer/sizematcher/pad_to_stride",
             "generate_confmaps/multiconfmaps/pafs", "apply_intensity/geometric_augmentation (as pure-call targets)",
             "torch DataLoader (num_workers=0)", "sleap_io Labels/Instance front-end"],
    "stub": ["video files -> in-memory MemVideo backend", "npz chunk store lives in a scratch dir on tmpfs"],
}
ASSUMPTIONS = [
    "augmentation off for dataset reads (the statement's determinism clause); augmentation functions only as purity targets",
    "filtering lf.instances down to user instances (documented behaviour) is not counted as altering labels; point arrays are",
    "num_workers=0",
]
TIERS = {
    "quick": {"runs": 9000, "time_cap_s": 80, "chunk": 60, "det_inproc": 6, "det_fresh": 4, "minimise_s": 60},
    "thorough": {"runs": 400000, "time_cap_s": 1200, "chunk": 100, "det_inproc": 30, "det_fresh": 15, "minimise_s": 180},
}
KINDS = ["single", "centroid", "centered", "bottomup"]
CALLS = ["generate_centroids", "generate_crops", "make_centered_bboxes", "apply_resizer", "apply_sizematcher",
         "apply_pad_to_stride", "generate_confmaps", "generate_multiconfmaps", "generate_pafs", "intensity_aug",
         "geometric_aug", "find_instance_crop_size"]


def gen_plan(rng, index, tier):
    forced_kind = KINDS[index % 4] if index < 16 else None
    forced_npz = (index // 4) % 2 == 1 if index < 16 else None
    single_scene = (forced_kind == "single") or (forced_kind is None and rng.random() < 0.25)
    scene = dw.gen_scene(rng, single=single_scene, nan_p=0.4, empty_frames=True)
    if single_scene:
        kinds = ["single"] + ([rng.choice(["centroid", "centered", "bottomup"])] if rng.random() < 0.3 else [])
    else:
        kinds = rng.sample(["centroid", "centered", "bottomup"], rng.choice([1, 1, 2, 3]))
    if forced_kind and forced_kind not in kinds:
        kinds = [forced_kind] + kinds[:1]
    dss = []
    for k in kinds:
        cfg = dw.gen_ds_cfg(rng, scene, k)
        npz = forced_npz if forced_npz is not None else rng.random() < 0.4
        dss.append({"kind": k, "cfg": cfg, "npz": npz, "stale_dir": npz and rng.random() < 0.35})
    n_ops = rng.randint(5, 40 if tier == "thorough" else 24)
    ops = []
    for _ in range(n_ops):
        r = rng.random()
        d = rng.randrange(len(dss))
        if r < 0.55:
            ops.append({"op": "get", "ds": d, "i": rng.randrange(0, 12)})
        elif r < 0.62:
            ops.append({"op": "next", "ds": d})
        elif r < 0.70:
            ops.append({"op": "epoch", "ds": d, "order_seed": rng.randrange(1 << 30)})
        elif r < 0.75:
            ops.append({"op": "reopen", "ds": d})
        elif r < 0.95:
            ops.append({"op": "call", "fn": rng.choice(CALLS), "frame": rng.randrange(0, 8), "inst": rng.randrange(0, 4),
                        "anchor": rng.choice([None, 0, 1, 2]), "p": rng.randrange(1 << 30)})
        else:
            ops.append({"op": "rng_jump", "seed": rng.randrange(1 << 30)})
    return {"scene": scene, "datasets": dss, "ops": ops}


def describe(plan):
    return {
        "frames": [{"video": f["video"], "frame_idx": f["frame_idx"],
                    "instances": ["".join("N" if p[0] != p[0] else "x" for p in i["pts"]) + ("p" if i["pred"] else "") for i in f["instances"]]}
                   for f in plan["scene"]["frames"]],
        "datasets": [{"kind": d["kind"], "npz": d["npz"], "anchor": d["cfg"]["anchor"], "scale": d["cfg"]["scale"],
                      "max_stride": d["cfg"]["max_stride"]} for d in plan["datasets"]],
        "ops": [o["op"] + (":" + o["fn"] if o["op"] == "call" else "") + (f"[{o['ds']},{o.get('i', '')}]" if "ds" in o else "") for o in plan["ops"]],
    }


def shrink(plan):
    ops = plan["ops"]
    n = len(ops)
    for cut in (n // 2,):
        if cut < n:
            p = copy.deepcopy(plan)
            p["ops"] = ops[:cut]
            yield p
            p = copy.deepcopy(plan)
            p["ops"] = ops[cut:]
            yield p
    for i in range(n):
        p = copy.deepcopy(plan)
        del p["ops"][i]
        yield p
    if len(plan["datasets"]) > 1:
        for d in range(len(plan["datasets"])):
            p = copy.deepcopy(plan)
            del p["datasets"][d]
            p["ops"] = [o for o in p["ops"] if o.get("ds") != d]
            for o in p["ops"]:
                if "ds" in o and o["ds"] > d:
                    o["ds"] -= 1
            yield p
    fr = plan["scene"]["frames"]
    if len(fr) > 1:
        for i in range(len(fr)):
            p = copy.deepcopy(plan)
            del p["scene"]["frames"][i]
            yield p
    for i, f in enumerate(fr):
        if len(f["instances"]) > 1:
            for j in range(len(f["instances"])):
                p = copy.deepcopy(plan)
                del p["scene"]["frames"][i]["instances"][j]
                if any(not x["pred"] for x in p["scene"]["frames"][i]["instances"]):
                    yield p
    for d, ds in enumerate(plan["datasets"]):
        if ds.get("stale_dir"):
            p = copy.deepcopy(plan)
            p["datasets"][d]["stale_dir"] = False
            yield p
        if ds["npz"]:
            p = copy.deepcopy(plan)
            p["datasets"][d]["npz"] = False
            p["datasets"][d]["stale_dir"] = False
            p["ops"] = [o for o in p["ops"] if not (o["op"] == "reopen" and o["ds"] == d)]
            yield p
        for k, v in (("scale", 1.0), ("max_stride", 1), ("output_stride", 1)):
            if ds["cfg"][k] != v:
                p = copy.deepcopy(plan)
                p["datasets"][d]["cfg"][k] = v
                yield p
    if len(plan["scene"]["sizes"]) > 1 and all(f["video"] == 0 for f in fr):
        p = copy.deepcopy(plan)
        p["scene"]["sizes"] = p["scene"]["sizes"][:1]
        yield p


# ------------------------------------------------------------------ oracle helpers
def _expected_len(scene, kind, uio=True):
    """Number of samples: non-empty (user) instances for 'centered', frames holding one otherwise."""
    n_frames = n_inst = 0
    for f in scene["frames"]:
        insts = f["instances"]
        users = [i for i in insts if not i["pred"]]
        use = users if (users and uio) else insts  # user_instances_only=False: predicted instances are training data too
        ne = [i for i in use if any(p[0] == p[0] for p in i["pts"])]
        if ne:
            n_frames += 1
        n_inst += len(ne)
    return n_inst if kind == "centered" else n_frames


def _nan_nodes(pts):
    return [p[0] != p[0] or p[1] != p[1] for p in pts]


stale_scene = dw.stale_scene


class DS:
    def __init__(self, spec, scene, root, idx):
        self.spec = spec
        self.kind = spec["kind"]
        self.cfg = spec["cfg"]
        self.npz = spec["npz"]
        self.path = os.path.join(root, f"ds{idx}") if self.npz else None
        self.labels = dw.build_labels(scene)
        self.snap = dw.snapshot_labels(self.labels)
        if self.npz and spec.get("stale_dir"):
            # an earlier (interrupted) run left chunk files of OTHER labels in the same directory: they must not be served
            dw.build_dataset(self.kind, dw.build_labels(stale_scene(scene)), self.cfg, np_chunks=True, np_chunks_path=self.path)
        self.ds = dw.build_dataset(self.kind, self.labels, self.cfg, np_chunks=self.npz, np_chunks_path=self.path)
        self.first = {}
        self.fresh = None
        self.fresh_path = os.path.join(root, f"fresh{idx}") if self.npz else None
        self.scene = scene
        self.reads = []

    def fresh_sample(self, i):
        # a brand-new dataset from pristine labels for every reference read: the reference has no read history at all
        lab = dw.build_labels(self.scene)
        fresh = dw.build_dataset(self.kind, lab, self.cfg, np_chunks=self.npz, np_chunks_path=self.fresh_path)
        return fresh[i]


def _truth_for_index(scene, kind, i, uio=True):
    """(frame dict, list of instances used, instance position) for sample i, mirroring the documented filtering."""
    k = 0
    for f in scene["frames"]:
        users = [x for x in f["instances"] if not x["pred"]]
        use = users if (users and uio) else f["instances"]
        ne = [x for x in use if any(p[0] == p[0] for p in x["pts"])]
        if kind == "centered":
            for x in use:
                if any(p[0] == p[0] for p in x["pts"]):
                    if k == i:
                        return f, use, x
                    k += 1
        else:
            if ne:
                if k == i:
                    return f, ne, None
                k += 1
    return None, None, None


def _check_sample_semantics(D, i, s):
    """NaN-in => NaN-out, zero maps for missing nodes, centroid fallback."""
    scene, kind, cfg = D.scene, D.kind, D.cfg
    f, insts, one = _truth_for_index(scene, kind, i, cfg.get("user_instances_only", True))
    if f is None:
        return f"sample {i} exists but the labels have no such non-empty item"
    if kind == "centered":
        nan = _nan_nodes(one["pts"])
        a = cfg["anchor"]
        got = torch.isnan(s["instance"][0]).any(dim=-1).tolist()
        if got != nan:
            anchor_note = " (the missing node is the anchor)" if a is not None and a < len(nan) and nan[a] else ""
            return f"centered sample {i}: labels miss nodes {nan} but sample['instance'] misses {got}{anchor_note} - a label was invented or lost"
        cm = s["confidence_maps"][0]
        for j, m in enumerate(nan):
            if m and float(cm[j].abs().max()) != 0.0:
                return f"centered sample {i}: node {j} is missing in the labels but its confidence map is not zero (max {float(cm[j].max()):.3g})"
    elif kind == "single":
        nan = _nan_nodes(insts[0]["pts"])
        got = torch.isnan(s["instances"][0, 0]).any(dim=-1).tolist()
        if got != nan:
            return f"single sample {i}: labels miss nodes {nan} but sample['instances'] misses {got}"
        cm = s["confidence_maps"][0]
        for j, m in enumerate(nan):
            if m and float(cm[j].abs().max()) != 0.0:
                return f"single sample {i}: node {j} missing in labels but confidence map non-zero"
    else:
        want = [_nan_nodes(x["pts"]) for x in insts]
        got_t = torch.isnan(s["instances"][0]).any(dim=-1)
        got = got_t[: len(want)].tolist()
        if got != want:
            return f"{kind} sample {i}: NaN pattern of instances {got} differs from labels {want} - a label was invented or lost"
        if got_t.shape[0] > len(want) and not bool(got_t[len(want):].all()):
            return f"{kind} sample {i}: padding rows beyond the {len(want)} labelled instances are not all NaN"
        if int(s["num_instances"]) != len(want):
            return f"{kind} sample {i}: num_instances={int(s['num_instances'])} but {len(want)} non-empty instances are labelled"
        if kind == "centroid":
            a = cfg["anchor"]
            cen = s["centroids"][0]
            inst_t = s["instances"][0]
            for r, x in enumerate(insts):
                pts = inst_t[r]
                vis = ~torch.isnan(pts).any(dim=-1)
                if a is not None and bool(vis[a]):
                    exp = pts[a]
                else:
                    v = pts[vis]
                    exp = (v.min(dim=0).values + v.max(dim=0).values) * 0.5
                if not torch.allclose(cen[r], exp, atol=1e-4, equal_nan=True):
                    return (f"centroid sample {i}: centroid of instance {r} is {cen[r].tolist()} but anchor/bbox-midpoint rule gives {exp.tolist()} "
                            f"(anchor={a}, anchor visible={bool(vis[a]) if a is not None else None})")
    return None


def execute(plan, choices=None):
    from worlds import simexec

    with simexec.installed(seed=plan.get("seed", 0), choices=choices) as tx:
        res = _execute(plan, choices)
    return _with_threads(res, tx)


def _with_threads(res, tx):
    """Fold what the simulated thread pool saw into the run's result (inert unless the code under test used a pool)."""
    res["choices"] = tx.choices.log
    res["probes"]["thread_pool_tasks_scheduled"] = tx.stats["tasks_submitted"]
    res["steps"] = res.get("steps", 0) + tx.stats["scheduler_steps"]
    if tx.used:
        res["digest"] = hashlib.blake2b((res["digest"] + repr(tx.choices.log)).encode(), digest_size=16).hexdigest()
    if tx.failure and tx.failure["kind"] != "harness" and not res["violations"]:
        res["violations"].append({"kind": tx.failure["kind"], "sig": tx.failure["kind"] + ":thread-pool", "detail": tx.failure["detail"]})
    return res


def _execute(plan, choices=None):
    scene = plan["scene"]
    root = f"/dev/shm/verif-c11-{os.getpid()}-{plan.get('seed', 0) % 100000}"
    shutil.rmtree(root, ignore_errors=True)
    os.makedirs(root)
    violations = []
    trace = []
    probes = {"reread_after_other_reads": 0, "missing_anchor_instance": 0, "npz_dataset": 0, "reopen_existing_chunks": 0,
              "epoch_through_dataloader": 0, "call_on_nan_data": 0, "empty_instance_in_labels": 0, "predicted_instance_in_labels": 0,
              "fresh_reference_compared": 0, "hidden_node_with_stored_xy": 0, "stale_chunks_in_dir": 0}
    op_kinds = []

    def V(kind, where, detail):
        violations.append({"kind": kind, "sig": f"{kind}:{where}", "detail": detail})

    try:
        DSs = []
        for i, spec in enumerate(plan["datasets"]):
            try:
                D = DS(spec, scene, root, i)
            except Exception as e:
                import traceback

                V("dataset_build_failed", f"{spec['kind']}:{type(e).__name__}", f"building {spec['kind']} dataset raised {type(e).__name__}: {e}\n{traceback.format_exc()[-800:]}")
                break
            DSs.append(D)
            if spec["npz"]:
                probes["npz_dataset"] += 1
            if spec["npz"] and spec.get("stale_dir"):
                probes["stale_chunks_in_dir"] += 1
            ch = dw.labels_changed(D.snap)
            if ch:
                V("labels_mutated", f"build:{spec['kind']}", f"building the {spec['kind']} dataset changed the labels: {ch}")
                break
            exp_len = _expected_len(scene, spec["kind"], spec["cfg"].get("user_instances_only", True))
            if len(D.ds) != exp_len:
                V("wrong_length", spec["kind"], f"len({spec['kind']} dataset)={len(D.ds)} but the labels hold {exp_len} non-empty items; scene={describe(plan)['frames']}")
                break
        for f in scene["frames"]:
            for x in f["instances"]:
                if all(p[0] != p[0] for p in x["pts"]):
                    probes["empty_instance_in_labels"] = 1
                if x["pred"]:
                    probes["predicted_instance_in_labels"] = 1
                if x.get("hidden"):
                    probes["hidden_node_with_stored_xy"] = 1
        cal_labels = dw.build_labels(scene)
        cal_snap = dw.snapshot_labels(cal_labels)

        def read(D, i, how, sample):
            trace.append((how, D.kind, i))
            ch = dw.labels_changed(D.snap)
            if ch:
                V("labels_mutated", f"{how}:{D.kind}", f"{how}({i}) on the {D.kind} dataset changed the labels: {ch}")
                return
            sem = _check_sample_semantics(D, i, sample)
            if sem:
                V("label_invented_or_lost", f"{D.kind}", sem + f"; cfg anchor={D.cfg['anchor']}")
                return
            if i in D.first:
                if D.reads and D.reads[-1] != i or len(set(D.reads)) > 1:
                    probes["reread_after_other_reads"] += 1
                d = dw.sample_diff(D.first[i], sample)
                if d:
                    V("sample_changed", f"{D.kind}:{'npz' if D.npz else 'mem'}",
                      f"{D.kind} sample {i} differs from its first read after history {D.reads[-8:]} via {how}: {d}")
                    return
            else:
                D.first[i] = dw.clone_sample(sample)
                try:
                    fs = D.fresh_sample(i)
                except Exception as e:
                    V("fresh_build_failed", D.kind, f"fresh reference dataset failed: {e!r}")
                    return
                probes["fresh_reference_compared"] += 1
                d = dw.sample_diff(fs, sample)
                if d:
                    V("sample_depends_on_history", f"{D.kind}:{'npz' if D.npz else 'mem'}",
                      f"{D.kind} sample {i} read after history {D.reads[-8:]} differs from a fresh dataset's sample: {d}")
                    return
            D.reads.append(i)

        for op in plan["ops"]:
            if violations:
                break
            op_kinds.append(op["op"] if op["op"] != "call" else op["fn"])
            if op["op"] == "rng_jump":
                torch.manual_seed(op["seed"])
                trace.append(("rng_jump",))
                continue
            if op["op"] == "call":
                _do_call(op, scene, cal_labels, cal_snap, V, probes, trace)
                continue
            if op["ds"] >= len(DSs):
                continue
            D = DSs[op["ds"]]
            n = len(D.ds)
            if n == 0:
                continue
            try:
                if op["op"] == "get":
                    i = op["i"] % n
                    read(D, i, "getitem", D.ds[i])
                elif op["op"] == "next":
                    i = D.ds.curr_idx
                    if i >= n:
                        D.ds.curr_idx = 0
                        i = 0
                    read(D, i, "next", next(D.ds))
                elif op["op"] == "epoch":
                    order = list(range(n))
                    random.Random(op["order_seed"]).shuffle(order)
                    probes["epoch_through_dataloader"] += 1
                    dl = torch.utils.data.DataLoader(D.ds, batch_size=1, sampler=order, num_workers=0)
                    for i, batch in zip(order, dl):
                        s = {k: (v[0] if isinstance(v, torch.Tensor) else (int(v[0]) if isinstance(v, (list, tuple)) else v)) for k, v in batch.items()}
                        if "num_instances" in s and isinstance(s["num_instances"], torch.Tensor):
                            s["num_instances"] = int(s["num_instances"])
                        read(D, i, "epoch", s)
                        if violations:
                            break
                elif op["op"] == "reopen" and D.npz:
                    probes["reopen_existing_chunks"] += 1
                    D.ds = dw.build_dataset(D.kind, None if False else D.labels, D.cfg, np_chunks=True, np_chunks_path=D.path, use_existing_chunks=True)
                    trace.append(("reopen", D.kind))
                    if len(D.ds) != n:
                        V("wrong_length", f"{D.kind}:reopen", f"reopened npz dataset has len {len(D.ds)} != {n}")
            except Exception as e:
                import traceback

                V("read_failed", f"{D.kind}:{op['op']}:{type(e).__name__}", f"{op} raised {type(e).__name__}: {e}\n{traceback.format_exc()[-800:]}")
    finally:
        shutil.rmtree(root, ignore_errors=True)
    for f in scene["frames"]:
        for dspec in plan["datasets"]:
            a = dspec["cfg"]["anchor"]
            if a is not None:
                for x in f["instances"]:
                    nn = _nan_nodes(x["pts"])
                    if a < len(nn) and nn[a] and not all(nn):
                        probes["missing_anchor_instance"] = 1
    nanpat = tuple(tuple("".join("N" if m else "x" for m in _nan_nodes(x["pts"])) for x in f["instances"]) for f in scene["frames"])
    cls = tuple((d["kind"], d["npz"], d["cfg"]["anchor"] is None, d["cfg"]["scale"], d["cfg"]["max_stride"]) for d in plan["datasets"])
    shape = hashlib.blake2b(repr((cls, op_kinds, nanpat)).encode(), digest_size=8).hexdigest()
    return {
        "violations": violations,
        "digest": hashlib.blake2b(repr((trace, [v["sig"] for v in violations])).encode(), digest_size=16).hexdigest(),
        "choices": [],
        "shape": shape,
        "nontrivial": probes["reread_after_other_reads"] > 0 or probes["call_on_nan_data"] > 0,
        "probes": probes,
        "faults": {"rng_jump": sum(1 for o in plan["ops"] if o["op"] == "rng_jump")},
        "sim_us": 0,
        "steps": len(trace),
        "fault_free": True,
        "states": [],
        "outcome": {"ops_done": len(trace)},
    }


def _tensor_frame(scene, labels, fidx):
    """(image (1,C,H,W) float, instances (1,n,nodes,2)) for a frame of the scene."""
    f = scene["frames"][fidx % len(scene["frames"])]
    H, W = scene["sizes"][f["video"]]
    img = torch.from_numpy(dw.coord_frame(H, W, 90).transpose(2, 0, 1)[None].astype("float32") / 255.0)
    inst = torch.tensor([[i["pts"] for i in f["instances"]]], dtype=torch.float32)
    return img, inst


def _do_call(op, scene, cal_labels, cal_snap, V, probes, trace):
    fn = op["fn"]
    r = random.Random(op["p"])
    img, inst = _tensor_frame(scene, cal_labels, op["frame"])
    has_nan = bool(torch.isnan(inst).any())
    n_inst, n_nodes = inst.shape[1], inst.shape[2]
    k = op["inst"] % n_inst
    anchor = op["anchor"]
    if anchor is not None:
        anchor = anchor % n_nodes
    args_before = None
    name = fn
    torch.manual_seed(op["p"])
    try:
        if fn == "generate_centroids":
            a = (inst.clone(),)
            args_before = [x.clone() for x in a]
            out = generate_centroids(a[0], anchor_ind=anchor)
            # semantics: anchor if visible else bbox midpoint of the visible points
            for j in range(n_inst):
                pts = args_before[0][0, j]
                vis = ~torch.isnan(pts).any(dim=-1)
                if not bool(vis.any()):
                    continue
                exp = pts[anchor] if (anchor is not None and bool(vis[anchor])) else (pts[vis].min(0).values + pts[vis].max(0).values) * 0.5
                if not torch.allclose(out[0, j], exp, atol=1e-5):
                    V("wrong_centroid", "generate_centroids", f"centroid {out[0, j].tolist()} != expected {exp.tolist()} (anchor={anchor})")
                    return
        elif fn == "generate_crops":
            pts = inst[0, k].clone()
            vis = ~torch.isnan(pts).any(dim=-1)
            if not bool(vis.any()):
                return
            cen = (pts[vis].min(0).values + pts[vis].max(0).values) * 0.5
            a = (img.clone(), pts, cen.clone())
            args_before = [x.clone() for x in a]
            out = generate_crops(a[0], a[1], a[2], (r.choice([16, 24, 32]),) * 2)
            if torch.isnan(out["instance"][0]).any(dim=-1).tolist() != (~vis).tolist():
                V("label_invented_or_lost", "generate_crops", "NaN pattern of cropped instance differs from input")
                return
        elif fn == "make_centered_bboxes":
            a = (torch.tensor([[r.uniform(5, 60), r.uniform(5, 60)]]),)
            args_before = [x.clone() for x in a]
            make_centered_bboxes(a[0], r.choice([16, 32]), r.choice([16, 32]))
        elif fn == "apply_resizer":
            a = (img.clone(), inst.clone())
            args_before = [x.clone() for x in a]
            _, o = apply_resizer(a[0], a[1], scale=r.choice([0.5, 0.75, 1.0, 1.25, 2.0]))
            if not torch.equal(torch.isnan(o), torch.isnan(args_before[1])):
                V("label_invented_or_lost", "apply_resizer", "NaN pattern changed")
                return
        elif fn == "apply_sizematcher":
            a = (img.clone(),)
            args_before = [x.clone() for x in a]
            apply_sizematcher(a[0], r.choice([None, 48, 96, 160]), r.choice([None, 48, 96, 160]))
        elif fn == "apply_pad_to_stride":
            a = (img.clone(),)
            args_before = [x.clone() for x in a]
            apply_pad_to_stride(a[0], r.choice([1, 2, 8, 16, 32]))
        elif fn == "generate_confmaps":
            a = (inst[:, k].clone(),)
            args_before = [x.clone() for x in a]
            cm = generate_confmaps(a[0], img_hw=tuple(img.shape[-2:]), sigma=1.5, output_stride=r.choice([1, 2, 4]))
            nanv = torch.isnan(args_before[0][0]).any(dim=-1)
            for j in range(n_nodes):
                if bool(nanv[j]) and float(cm[0, j].abs().max()) != 0.0:
                    V("label_invented_or_lost", "generate_confmaps", f"node {j} missing but confmap non-zero")
                    return
            if bool(torch.isnan(cm).any()):
                V("label_invented_or_lost", "generate_confmaps:nan", "NaN in confidence map")
                return
        elif fn == "generate_multiconfmaps":
            a = (inst.clone(),)
            args_before = [x.clone() for x in a]
            generate_multiconfmaps(a[0], img_hw=tuple(img.shape[-2:]), num_instances=n_inst, sigma=1.5, output_stride=r.choice([1, 2, 4]), is_centroids=False)
        elif fn == "generate_pafs":
            a = (inst.clone(), torch.Tensor(scene["edges"]) if scene["edges"] else None)
            if a[1] is None:
                return
            args_before = [x.clone() for x in a]
            generate_pafs(a[0], img_hw=tuple(img.shape[-2:]), sigma=3.0, output_stride=r.choice([1, 2, 4]), edge_inds=a[1], flatten_channels=True)
        elif fn in ("intensity_aug", "geometric_aug"):
            a = (img.clone(), inst.clone())
            args_before = [x.clone() for x in a]
            if fn == "intensity_aug":
                _, o = apply_intensity_augmentation(a[0], a[1], uniform_noise_p=r.choice([0.0, 1.0]), gaussian_noise_p=r.choice([0.0, 1.0]),
                                                    contrast_p=r.choice([0.0, 1.0]), brightness=0.3, brightness_p=r.choice([0.0, 1.0]))
            else:
                _, o = apply_geometric_augmentation(a[0], a[1], rotation=r.choice([0.0, 15.0, 180.0]), scale=r.choice([None, (0.8, 1.2)]),
                                                    translate_width=0.05, translate_height=0.05, affine_p=1.0)
            if not torch.equal(torch.isnan(o), torch.isnan(args_before[1])):
                V("label_invented_or_lost", fn, f"{fn}: NaN pattern of keypoints changed (missing keypoints became numbers or vice versa)")
                return
        elif fn == "find_instance_crop_size":
            find_instance_crop_size(cal_labels, maximum_stride=r.choice([2, 8, 16]), input_scaling=r.choice([0.5, 1.0, 2.0]))
            ch = dw.labels_changed(cal_snap)
            if ch:
                V("labels_mutated", "find_instance_crop_size", f"find_instance_crop_size changed the labels: {ch}")
            trace.append(("call", fn))
            return
        else:
            return
    except Exception as e:
        import traceback

        V("call_failed", f"{fn}:{type(e).__name__}", f"{fn} raised {type(e).__name__}: {e}\n{traceback.format_exc()[-600:]}")
        return
    trace.append(("call", name))
    if has_nan:
        probes["call_on_nan_data"] += 1
    for i, (b, now) in enumerate(zip(args_before, a)):
        if not torch.equal(torch.nan_to_num(b, nan=-777.0), torch.nan_to_num(now, nan=-777.0)):
            V("argument_mutated", fn, f"{fn} modified its argument #{i} in place: before {b.flatten()[:12].tolist()} after {now.flatten()[:12].tolist()} (anchor={anchor})")
            return
