"""C19 - training runs complete and leave full artifacts that never contain the API key."""

import hashlib
import os
import shutil

from worlds import trainworld as tw

import sleap_nn.training.model_trainer  # noqa: F401,E402  (import before forking)
import sleap_nn.train  # noqa: F401,E402

ID = "C19"
LEVEL = "fault_enumeration"
RULE = (
    "one run = one training configuration class (model type x data framework x tracking on/off/offline x "
    "checkpointing x save_last x chunk deletion x config origin plain/yaml/structured x chunk dir explicit/default x "
    "temp dir on same/other file system x synthetic/asset labels) executed in a forked child with ModelTrainer.__init__ + "
    "train() on an audited file system. Mode 'virtual': the durable state is inspected before EVERY mutating FS event "
    "(what a crash there would leave) and the artifact oracle is applied at the end. Mode 'crash': the child is killed "
    "(os._exit) immediately before FS event j and the survivor tree is scanned; the first indices enumerate every j of "
    "fixed configurations, later ones draw j by seed. Mode 'disk_error': OSError(ENOSPC/EIO) is raised from FS event j. "
    "Non-trivial = at least one file was written under the output roots; distinct = (configuration class, mode, fault event index)"
)
COMPONENTS = {
    "real": ["sleap_nn.training.model_trainer.ModelTrainer (__init__, train)", "sleap_nn.training.lightning_modules",
             "sleap_nn.train config builders + TrainingJobConfig (structured origin)", "verify_training_cfg",
             "Lightning Trainer, ModelCheckpoint, CSVLogger, fsspec atomic save", "custom datasets incl. np_chunks (np.savez_compressed)",
             "OmegaConf.save/load", "tiny UNet + heads, one optimisation step on CPU"],
    "stub": ["wandb module + WandbLogger -> in-process fake that persists everything it is told under save_dir/wandb",
             "time.time in lightning_modules -> virtual clock", "sio.load_slp -> in-memory synthetic labels (data=synthetic); real .pkg.slp asset otherwise",
             "process death -> os._exit in a forked child at an audited FS event"],
}
ASSUMPTIONS = [
    "FS events are observed through sys.addaudithook (open-for-write, rename, remove, mkdir, rmdir, rmtree, copy, link, chmod, utime, truncate) before they execute; "
    "between two events files only grow, so every intermediate durable state is a prefix of an inspected one",
    "the key is searched as raw bytes, base64 and hex, in files and inside zip/npz/gz members",
    "num_workers=0, CPU, litdata framework not simulated (subprocess + binary format)",
    "the real wandb service process is replaced by a fake that is strictly more talkative on disk; its logger creates the run lazily like Lightning's WandbLogger",
    "resume runs (child process only): torch.load defaults to weights_only=False, as with the torch the repository targets (torch >= 2.6 in this sandbox cannot re-load Lightning checkpoints that carry OmegaConf hyper-parameters)",
    "trainer_config.lr_scheduler / early_stopping set to null are valid configurations (the schema's defaults for these Optional fields)",
]
TIERS = {
    "quick": {"runs": 1100, "time_cap_s": 95, "chunk": 8, "det_inproc": 3, "det_fresh": 2, "minimise_s": 60, "watchdog_s": 600},
    "thorough": {"runs": 60000, "time_cap_s": 1500, "chunk": 16, "det_inproc": 6, "det_fresh": 4, "minimise_s": 180, "watchdog_s": 900},
}

MODEL_TYPES = ["single_instance", "centroid", "centered_instance", "bottomup"]
# configurations whose crash points are enumerated exhaustively (every event index) by the first indices
ENUM_CONFIGS = [
    {"model_type": "centroid", "fw": "torch_dataset", "use_wandb": False, "save_ckpt": True, "origin": "plain"},
    {"model_type": "single_instance", "fw": "torch_dataset_np_chunks", "use_wandb": True, "save_ckpt": True, "origin": "structured"},
    {"model_type": "bottomup", "fw": "torch_dataset_np_chunks", "use_wandb": False, "save_ckpt": False, "origin": "yaml"},
    {"model_type": "centered_instance", "fw": "torch_dataset", "use_wandb": True, "save_ckpt": True, "origin": "plain"},
]
ENUM_EVENTS = 48


def _base(rng):
    return {
        "model_type": rng.choice(MODEL_TYPES),
        "fw": rng.choice(["torch_dataset", "torch_dataset_np_chunks"]),
        "use_wandb": rng.random() < 0.5,
        "wandb_mode": rng.choice([None, "offline"]),
        "save_ckpt": rng.random() < 0.7,
        "save_last": rng.choice([True, False, None]),
        "delete_chunks": rng.random() < 0.7,
        "origin": rng.choice(["plain", "yaml", "structured"]),
        "explicit_chunks": rng.random() < 0.5,
        "tmp_same_fs": rng.random() < 0.5,
        "data": rng.choice(["synthetic", "synthetic", "asset"]),
        "epochs": rng.choice([1, 1, 2]),
        "scale": 0.25,
        "low_memory": rng.random() < 0.15,
        "login_fault": rng.random() < 0.12,
        "rerun": rng.random() < 0.12,
        "lr_sched": rng.choice(["plateau", "plateau", "step", "both_null", "null"]),
        "optimizer": rng.choice(["Adam", "Adam", "AdamW"]),
        "early_null": rng.random() < 0.2,  # trainer_config.early_stopping: null (the schema's default)
        "aug": rng.random() < 0.25,  # default augmentations on
        "is_rgb": rng.random() < 0.25,  # grayscale assets converted to 3 channels
        "max_hw": rng.choice([None, None, 96, 128]),  # size matching to a user-set maximum
        "bb_stride": rng.choice([2, 2, 1]),  # the backbone may decode finer than any head needs (output_stride 1, heads at 2 / 4)
        "seed_none": rng.random() < 0.15,  # trainer_config.seed: null (schema default)
        "steps_none": rng.random() < 0.2,  # steps_per_epoch derived from the dataset length
        "ckpt_path_none": rng.random() < 0.12,  # save_ckpt_path left at its default ("./")
        "profiler": rng.choice([None, None, None, "simple", "passthrough"]),
        "crop_auto": rng.random() < 0.4,  # centered-instance: crop size derived from the labels
        "min_crop_size": rng.choice([None, 32, 40]),
    }


def gen_plan(rng, index, tier):
    p = _base(rng)
    n_enum = len(ENUM_CONFIGS) * ENUM_EVENTS
    if index < len(ENUM_CONFIGS):
        # fault-free run of each enumerated configuration (virtual crash at every event)
        p.update(ENUM_CONFIGS[index])
        p.update({"mode": "virtual", "fault_at": None, "data": "synthetic", "epochs": 1, "save_last": True,
                  "delete_chunks": True, "explicit_chunks": True, "tmp_same_fs": False, "wandb_mode": None,
                  "low_memory": False, "login_fault": False, "rerun": False, "lr_sched": "plateau", "optimizer": "Adam", "crop_auto": False, "min_crop_size": None, "early_null": False, "seed_none": False, "steps_none": False, "ckpt_path_none": False, "profiler": None, "aug": False, "is_rgb": False, "max_hw": None, "bb_stride": 2})
    elif index < len(ENUM_CONFIGS) + n_enum:
        k = index - len(ENUM_CONFIGS)
        p.update(ENUM_CONFIGS[k // ENUM_EVENTS])
        p.update({"mode": "crash", "fault_at": k % ENUM_EVENTS, "data": "synthetic", "epochs": 1, "save_last": True,
                  "delete_chunks": True, "explicit_chunks": True, "tmp_same_fs": False, "wandb_mode": None,
                  "low_memory": False, "login_fault": False, "rerun": False, "lr_sched": "plateau", "optimizer": "Adam", "crop_auto": False, "min_crop_size": None, "early_null": False, "seed_none": False, "steps_none": False, "ckpt_path_none": False, "profiler": None, "aug": False, "is_rgb": False, "max_hw": None, "bb_stride": 2})
    else:
        r = rng.random()
        if r < 0.45:
            p["mode"], p["fault_at"] = "virtual", None
        elif r < 0.8:
            p["mode"], p["fault_at"] = "crash", rng.randint(0, 46)
        else:
            p["mode"], p["fault_at"] = "disk_error", rng.randint(0, 44)
            p["errno"] = rng.choice(["ENOSPC", "EIO"])
    if p["model_type"] == "single_instance":
        p["data"] = "synthetic"  # the asset has two animals per frame
    if p["origin"] == "yaml" and rng.random() < 0.5:
        p["yaml_filename"] = True  # the loaded config records the path of the YAML file it came from (which still holds the key)
    if p.get("rerun") and rng.random() < 0.6:
        others = [m for m in MODEL_TYPES if m != p["model_type"] and (m != "single_instance")]
        p["rerun_other_model"] = rng.choice(others)
    elif p.get("rerun") and p["save_ckpt"] and rng.random() < 0.7:
        p["resume"] = True  # continue from the earlier run's checkpoint (and, with tracking, its run id)
        p["epochs"] = 2  # the earlier run trained 3 - 2 = 1 epoch: there is an epoch left to train
    return p


def describe(plan):
    return {k: plan[k] for k in ("model_type", "fw", "use_wandb", "wandb_mode", "save_ckpt", "save_last", "delete_chunks",
                                 "origin", "explicit_chunks", "tmp_same_fs", "data", "epochs", "mode", "fault_at", "low_memory") if k in plan} | {k: plan.get(k) for k in ("login_fault", "rerun", "rerun_other_model", "resume", "lr_sched", "early_null", "optimizer", "crop_auto", "min_crop_size", "yaml_filename", "seed_none", "steps_none", "ckpt_path_none", "profiler", "aug", "is_rgb", "max_hw", "bb_stride")}


def shrink(plan):
    import copy

    def mod(**kw):
        p = copy.deepcopy(plan)
        p.update(kw)
        return p

    if plan["mode"] != "virtual":
        yield mod(mode="virtual", fault_at=None)
    if plan["data"] != "synthetic":
        yield mod(data="synthetic")
    if plan["epochs"] != 1:
        yield mod(epochs=1)
    if plan["origin"] != "plain":
        yield mod(origin="plain")
    if plan["fw"] != "torch_dataset":
        yield mod(fw="torch_dataset")
    if plan["use_wandb"]:
        yield mod(use_wandb=False)
    if plan.get("wandb_mode"):
        yield mod(wandb_mode=None)
    if plan["save_ckpt"]:
        yield mod(save_ckpt=False)
    if plan["save_last"] is not True:
        yield mod(save_last=True)
    if plan["explicit_chunks"]:
        yield mod(explicit_chunks=False)
    if plan["tmp_same_fs"]:
        yield mod(tmp_same_fs=False)
    if not plan["delete_chunks"]:
        yield mod(delete_chunks=True)
    if plan.get("low_memory"):
        yield mod(low_memory=False)
    if plan.get("login_fault"):
        yield mod(login_fault=False)
    if plan.get("rerun"):
        yield mod(rerun=False, resume=False, rerun_other_model=None)
    if plan.get("resume"):
        yield mod(resume=False)
    if plan["model_type"] != "centroid":
        yield mod(model_type="centroid")
    if plan.get("fault_at"):
        yield mod(fault_at=plan["fault_at"] // 2)
        yield mod(fault_at=plan["fault_at"] - 1)


def _fileclass(rel):
    b = os.path.basename(rel.split("!")[0])
    if "!" in rel:
        b += "!member"
    if rel.endswith("->link"):
        b = os.path.basename(rel[:-6]) + "->link"
    for pre in ("sample_",):
        if b.startswith(pre):
            b = pre + "N" + os.path.splitext(b)[1]
    if "/wandb/" in rel:
        b = "wandb/" + b
    if "/lightning_logs/" in rel:
        b = "lightning_logs/" + b
    if rel.startswith("/chunks/"):
        b = "chunks/" + b
    return b


def execute(plan, choices=None):
    seed = plan.get("seed", 0)
    key = "K" + hashlib.blake2b(f"key:{seed}".encode(), digest_size=16).hexdigest()[:31]
    root = f"/dev/shm/verif-c19-{os.getpid()}-{seed % 100000}"
    shutil.rmtree(root, ignore_errors=True)
    os.makedirs(root)
    violations = []

    def V(kind, where, detail):
        violations.append({"kind": kind, "sig": f"{kind}:{where}", "detail": detail})

    try:
        res, code = tw.run_in_child(plan, root, key)
        if code == "timeout":
            V("hang", plan["mode"], f"trainer did not finish within the wall-clock watchdog; plan={describe(plan)}")
            res = None
        elif res is not None and "harness_error" in res:
            raise RuntimeError("child harness error: " + res["harness_error"] + "\n" + res.get("tb", ""))
        elif res is None and code != 77:
            raise RuntimeError(f"trainer child exited with status {code} and no result; plan={describe(plan)}")
        crashed = res is None and code == 77
        mode = plan["mode"]
        survivors = []
        if crashed:
            # the process is dead; only durable state is left
            roots = [os.path.join(root, "out"), os.path.join(root, "cwd")] + ([os.path.join(root, "chunks")] if plan["explicit_chunks"] else [])
            needles = tw.needles_for(key)
            hits = []
            for pth in sorted(tw.tree_state(roots)):
                survivors.append(pth.replace(root, ""))
                for where, n in tw.scan_file(pth, needles):
                    hits.append(where.replace(root, ""))
            for h in sorted(set(hits)):
                V("key_on_disk_after_crash", _fileclass(h),
                  f"process killed before FS event {plan['fault_at']}: {h} contains the API key; survivors={survivors}; plan={describe(plan)}")
                break
        elif res is not None:
            for h in res["hits"]:
                V("key_on_disk", _fileclass(h["file"]),
                  f"{h['file']} contains the API key ({['raw', 'base64', 'hex'][h['enc'] % 3]}{', the key of the earlier run in this folder' if h['enc'] >= 3 else ''}) - first seen at [{h['at']}] during phase {h['phase']}; "
                  f"a crash at that point leaves it on disk; plan={describe(plan)}")
                break
            fault_fired = res.get("fault_fired") or res.get("fault_fired_login")
            if (mode == "virtual" and not fault_fired) or (mode in ("crash", "disk_error") and not fault_fired):
                # fault-free execution: the artifact oracle applies in full
                art = res.get("artifacts", {})
                if res["error"]:
                    V("train_failed", f"{res.get('error_type')}@{res.get('error_where')}",
                      f"constructing/running the trainer raised {res['error']} (phase {res['phase']}); plan={describe(plan)}\n{res.get('tb', '')[-600:]}")
                else:
                    if art.get("initial_diffs") is None:
                        V("artifact_missing", "initial_config.yaml", f"initial_config.yaml was not written; files={res['files']}")
                    elif art["initial_diffs"]:
                        V("initial_config_differs", art["initial_diffs"][0][0],
                          f"initial_config.yaml differs from the supplied configuration at {art['initial_diffs']}; plan={describe(plan)}")
                    if art.get("final_diffs") is None:
                        V("artifact_missing", "training_config.yaml", f"training_config.yaml was not written; files={res['files']}")
                    elif art["final_diffs"]:
                        V("final_config_differs", art["final_diffs"][0][0],
                          f"final training_config.yaml differs from the configuration the trainer used at {art['final_diffs']}; plan={describe(plan)}")
                    if art.get("final_diffs") is not None and art.get("wandb_run_id") is not None and art.get("final_run_id") != art["wandb_run_id"]:
                        # "the configuration actually used": with tracking on, the run it logged to is part of it (it is what resuming needs)
                        V("final_config_differs", "trainer_config.wandb.run_id",
                          f"final training_config.yaml records run_id {art.get('final_run_id')!r} but the training logged to run {art['wandb_run_id']!r}; plan={describe(plan)}")
                    if plan["save_ckpt"] and not art.get("best"):
                        V("artifact_missing", "best.ckpt", f"checkpointing is on but best.ckpt is missing; files={res['files']}")
                    if plan["save_ckpt"] and plan["save_last"] and not art.get("last"):
                        V("artifact_missing", "last.ckpt", f"save_last is on but last.ckpt is missing; files={res['files']}")
                    if not plan["save_ckpt"] and (art.get("best") or art.get("last")):
                        V("artifact_unexpected", "ckpt", f"checkpointing is off but a checkpoint exists; files={res['files']}")
                    if (plan["fw"] == "torch_dataset_np_chunks" or res.get("fault_fired_low_memory")) and plan["delete_chunks"] and art.get("npz_left"):
                        V("chunks_left", "npz", f"chunk deletion requested but {art['npz_left']} remain; plan={describe(plan)}")
    finally:
        shutil.rmtree(root, ignore_errors=True)

    cls = "/".join(str(plan[k]) for k in ("model_type", "fw", "use_wandb", "wandb_mode", "save_ckpt", "save_last",
                                           "delete_chunks", "origin", "explicit_chunks", "tmp_same_fs", "data", "epochs", "low_memory")) + f"/{plan.get('login_fault')}/{plan.get('rerun')}"
    events = (res or {}).get("events", [])
    faults = {}
    if crashed:
        faults["crash"] = 1
    elif res is not None and res.get("fault_fired"):
        faults["disk_error"] = 1
    if res is not None:
        faults["virtual_crash_inspection"] = res.get("inspections", 0)
        if res.get("fault_fired_low_memory"):
            faults["low_memory"] = 1
        if res.get("fault_fired_login"):
            faults["wandb_login_error"] = 1
        if plan.get("rerun"):
            faults["output_folder_reused"] = 1
    trace = repr((events, [v["sig"] for v in violations], crashed, sorted(survivors)))
    wrote = bool(events) or bool(survivors)
    fa = plan.get("fault_at") if (crashed or (res and res.get("fault_fired"))) else None
    return {
        "violations": violations,
        "digest": hashlib.blake2b(trace.encode(), digest_size=16).hexdigest(),
        "choices": [],
        "shape": hashlib.blake2b(f"{cls}|{plan['mode']}|{fa}".encode(), digest_size=8).hexdigest(),
        "nontrivial": wrote,
        "probes": {
            "crash_fired": int(crashed),
            "crash_requested_past_last_event": int(plan["mode"] == "crash" and not crashed),
            "disk_error_fired": int(bool(res and res.get("fault_fired"))),
            "run_failed_after_disk_error": int(bool(res and res.get("fault_fired") and res.get("error"))),
            "checkpoint_written": int(bool(res and res.get("artifacts", {}).get("best"))),
            "npz_chunks_written": int(any(e[1].endswith(".npz") for e in events)),
            "wandb_fake_used": int(any("/wandb/" in e[1] for e in events)),
            "structured_origin": int(plan["origin"] == "structured"),
            "config_records_source_yaml_path": int(bool(plan.get("yaml_filename"))),
            "resumed_from_earlier_checkpoint": int(bool(plan.get("resume"))),
            "fs_events": len(events),
        },
        "faults": faults,
        "sim_us": len(events) * 1000,
        "steps": len(events),
        "fault_free": plan["mode"] == "virtual",
        "states": [f"{plan['mode']}:{e[0]}:{_fileclass(e[1])}" for e in events[:200]],
        "outcome": {"events": len(events), "crashed": crashed, "error": (res or {}).get("error"),
                    "files": (res or {}).get("files", survivors)[:12]},
    }
