"""C14 - every valid model configuration yields outputs of the contracted shape."""

import copy
import hashlib
import math
import random

import numpy as np
import torch
from omegaconf import OmegaConf

from sleap_nn.architectures.model import Model  # noqa: E402
from sleap_nn.config.training_job_config import TrainingJobConfig  # noqa: E402
from sleap_nn.data.confidence_maps import generate_confmaps, generate_multiconfmaps  # noqa: E402
from sleap_nn.data.edge_maps import generate_pafs  # noqa: E402

ID = "C14"
LEVEL = "exploration"
RULE = (
    "one run = one seeded point of the configuration grid (backbone family x max_stride x backbone/head output strides x "
    "stem stride x filters_rate x convs_per_block x up_interpolate x middle_block x head type incl. bottom-up with differing "
    "confmap/PAF strides, small filter counts) normalised by TrainingJobConfig.check_output_strides, assembled with the real "
    "Model, then a history of 3-10 eval-mode forward calls with differing (batch, H, W), RNG jumps and batch permutations; "
    "oracle: one output per head with (parts | 2*edges | 1) channels and spatial size input/stride == the shape the target "
    "generators produce, and every frame's output equals the output of a pristine deep copy of the model called once on that "
    "frame alone. Non-trivial = >= 2 calls of differing input size or batch composition; distinct = digest of the configuration point"
)
COMPONENTS = {
    "real": ["sleap_nn.architectures.model.Model (+ UNet / ConvNextWrapper / SwinTWrapper, Encoder/Decoder, heads, MaxPool2dWithSamePadding)",
             "TrainingJobConfig.check_output_strides", "generate_confmaps / generate_multiconfmaps / generate_pafs (for the contracted target shape)"],
    "stub": ["nothing is stubbed; randomness (weight init, RNG jumps between calls) comes from the run seed"],
}
ASSUMPTIONS = [
    "valid = strides are powers of two, head strides <= max_stride, stem_stride < max_stride, after check_output_strides; ConvNeXt/Swin use the documented presets "
    "(model_type given, max_stride = stem_patch_stride * 8)",
    "eval mode only; CPU float32; comparison rtol 1e-4 / atol 1e-5",
]
TIERS = {
    "quick": {"runs": 650, "time_cap_s": 85, "chunk": 6, "det_inproc": 3, "det_fresh": 2, "minimise_s": 60},
    "thorough": {"runs": 40000, "time_cap_s": 1500, "chunk": 12, "det_inproc": 10, "det_fresh": 6, "minimise_s": 180},
}
HEADS = ["single_instance", "centroid", "centered_instance", "bottomup"]


def gen_plan(rng, index, tier):
    fam = rng.choices(["unet", "convnext", "swint"], [0.7, 0.12, 0.18])[0]
    if index < 3:
        fam = ["unet", "convnext", "swint"][index]
    head = HEADS[index % 4] if index < 16 else rng.choice(HEADS)
    n_parts = rng.randint(1, 5)
    n_edges = max(1, n_parts - 1)
    if fam == "unet":
        max_stride = rng.choice([2, 4, 8, 16, 32])
        stem = rng.choice([None, None, 2, 4])
        if stem is not None and stem >= max_stride:
            stem = None
        bb = {"in_channels": rng.choice([1, 3]), "kernel_size": 3, "filters": rng.choice([4, 6, 8]), "filters_rate": rng.choice([1.5, 2.0]),
              "max_stride": max_stride, "stem_stride": stem, "middle_block": rng.random() < 0.88, "up_interpolate": rng.random() < 0.6,
              "stacks": 1, "convs_per_block": rng.choice([1, 2, 2, 2, 2, 3, 3, 3]), "output_stride": 1}
        if index == 4:
            bb["convs_per_block"] = 1  # keeps the listed known finding in every batch
        if index == 5:
            bb["convs_per_block"], bb["middle_block"] = 2, False
    elif fam == "convnext":
        sps = rng.choice([2, 4])
        max_stride = sps * 8
        # the preset's channel progression is x2 per stage and the decoder's skip widths are derived from filters_rate,
        # so for the ConvNeXt/Swin presets filters_rate is not a free parameter: only the documented default 2 is a valid point
        bb = {"model_type": "tiny", "arch": None, "in_channels": rng.choice([1, 3]), "kernel_size": 3, "filters_rate": 2.0,
              "convs_per_block": rng.choice([1, 2]), "up_interpolate": rng.random() < 0.6, "output_stride": 1, "stem_patch_kernel": 4,
              "stem_patch_stride": sps, "max_stride": max_stride}
    else:
        sps = rng.choice([2, 4])
        max_stride = sps * 8
        bb = {"model_type": "tiny", "arch": None, "in_channels": rng.choice([1, 3]), "kernel_size": 3, "filters_rate": 2.0,
              "convs_per_block": rng.choice([1, 2]), "up_interpolate": rng.random() < 0.6, "output_stride": 1, "patch_size": [4, 4],
              "stem_patch_stride": sps, "window_size": [7, 7], "max_stride": max_stride}
    # the decoder always upsamples at least once, so its outputs exist at strides max_stride/2 ... output_stride:
    # a head AT the bottleneck stride has nothing to attach to (UNet.from_config would build zero up-blocks) -> not a valid point
    strides = [s for s in (1, 2, 4, 8, 16, 32) if s < max_stride]
    s1 = rng.choice(strides)
    s2 = rng.choice(strides)
    parts = [f"n{i}" for i in range(n_parts)]
    if head == "single_instance":
        hc = {"confmaps": {"part_names": parts, "sigma": 1.5, "output_stride": s1}}
    elif head == "centroid":
        hc = {"confmaps": {"anchor_part": 0, "sigma": 1.5, "output_stride": s1}}
    elif head == "centered_instance":
        hc = {"confmaps": {"part_names": parts, "anchor_part": 0, "sigma": 1.5, "output_stride": s1}}
    else:
        hc = {"confmaps": {"part_names": parts, "sigma": 1.5, "output_stride": s1, "loss_weight": 1.0},
              "pafs": {"edges": [[f"n{i}", f"n{i + 1}"] if i + 1 < n_parts else [f"n0", f"n0"] for i in range(n_edges)], "sigma": 4.0, "output_stride": s2, "loss_weight": 1.0}}
        if rng.random() < 0.4:
            hc = {"pafs": hc["pafs"], "confmaps": hc["confmaps"]}  # a head config is a mapping: the order its keys are written in carries no meaning
    n_calls = rng.randint(3, 10 if tier == "thorough" else 6)
    calls = []
    big = fam != "unet"
    for _ in range(n_calls):
        r = rng.random()
        if r < 0.15:
            calls.append({"op": "rng_jump", "seed": rng.randrange(1 << 30)})
        m = max_stride
        hmul = rng.randint(1, max(1, 96 // m))
        wmul = rng.randint(1, max(1, 96 // m))
        if fam == "swint":
            hmul, wmul = max(hmul, 2), max(wmul, 2)
        calls.append({"op": "forward", "B": rng.choice([1, 2, 3]), "H": hmul * m, "W": wmul * m, "data": rng.randrange(1 << 30),
                      "perm": rng.random() < 0.3, "range": rng.choice(["unit", "unit", "unit", "raw255", "dark_among_raw255"])})
        if hmul != wmul and rng.random() < 0.45:
            # the same area in the other orientation: equal element / window counts with a different layout is exactly
            # where a size-keyed cache or a reshaped buffer carried over from the previous call goes wrong
            calls.append({"op": "forward", "B": rng.choice([1, 2]), "H": wmul * m, "W": hmul * m, "data": rng.randrange(1 << 30), "perm": False})
    return {"family": fam, "backbone": bb, "head": head, "head_cfg": hc, "calls": calls, "init_seed": rng.randrange(1 << 30)}


def describe(plan):
    return {"family": plan["family"], "backbone": {k: v for k, v in plan["backbone"].items() if k not in ("arch", "kernel_size", "stacks")},
            "head": plan["head"], "head_strides": {k: v["output_stride"] for k, v in plan["head_cfg"].items()},
            "calls": [(c["B"], c["H"], c["W"]) if c["op"] == "forward" else "rng_jump" for c in plan["calls"]]}


def config_class(plan):
    bb = plan["backbone"]
    return (plan["family"], bb.get("max_stride"), bb.get("stem_stride", bb.get("stem_patch_stride")), bb.get("filters_rate"), bb.get("convs_per_block"),
            bb.get("up_interpolate"), bb.get("middle_block"), plan["head"], tuple(sorted((k, v["output_stride"]) for k, v in plan["head_cfg"].items())))


def shrink(plan):
    calls = plan["calls"]
    if len(calls) > 1:
        for i in range(len(calls)):
            p = copy.deepcopy(plan)
            del p["calls"][i]
            if any(c["op"] == "forward" for c in p["calls"]):
                yield p
    for i, c in enumerate(calls):
        if c["op"] == "forward":
            m = plan["backbone"]["max_stride"]
            for k, v in (("B", 1), ("H", m * (2 if plan["family"] == "swint" else 1)), ("W", m * (2 if plan["family"] == "swint" else 1)), ("perm", False)):
                if c[k] != v:
                    p = copy.deepcopy(plan)
                    p["calls"][i][k] = v
                    yield p
    bb = plan["backbone"]
    if plan["family"] == "unet":
        for k, v in (("stem_stride", None), ("middle_block", True), ("up_interpolate", True), ("convs_per_block", 2), ("filters_rate", 2.0), ("in_channels", 1), ("filters", 4)):
            if bb[k] != v:
                p = copy.deepcopy(plan)
                p["backbone"][k] = v
                yield p
    for hk in plan["head_cfg"]:
        if plan["head_cfg"][hk]["output_stride"] != 1:
            p = copy.deepcopy(plan)
            p["head_cfg"][hk]["output_stride"] = 1
            yield p
            p = copy.deepcopy(plan)
            p["head_cfg"][hk]["output_stride"] = plan["head_cfg"][hk]["output_stride"] // 2
            yield p


def expected_shapes(plan, H, W):
    """Shapes the data pipeline produces for this head's targets on an HxW input."""
    hc = plan["head_cfg"]
    out = {}
    if plan["head"] in ("single_instance", "centered_instance"):
        n = len(hc["confmaps"]["part_names"])
        cm = generate_confmaps(torch.zeros((1, n, 2)) + 3.0, img_hw=(H, W), sigma=1.5, output_stride=hc["confmaps"]["output_stride"])
        out["confmaps"] = tuple(cm.shape[1:])
    elif plan["head"] == "centroid":
        cm = generate_multiconfmaps(torch.zeros((1, 2, 2)) + 3.0, img_hw=(H, W), num_instances=2, sigma=1.5, output_stride=hc["confmaps"]["output_stride"], is_centroids=True)
        out["confmaps"] = tuple(cm.shape[1:])
    else:
        n = len(hc["confmaps"]["part_names"])
        cm = generate_multiconfmaps(torch.zeros((1, 1, n, 2)) + 3.0, img_hw=(H, W), num_instances=1, sigma=1.5, output_stride=hc["confmaps"]["output_stride"], is_centroids=False)
        out["confmaps"] = tuple(cm.shape[1:])
        m = len(hc["pafs"]["edges"])
        inst = torch.zeros((1, 1, max(n, 2), 2)) + 3.0
        pf = generate_pafs(inst, img_hw=(H, W), sigma=4.0, output_stride=hc["pafs"]["output_stride"], edge_inds=torch.zeros((m, 2)), flatten_channels=True)
        out["pafs"] = tuple(pf.shape)
    return out


HEAD_NAMES = {
    "single_instance": {"confmaps": "SingleInstanceConfmapsHead"},
    "centroid": {"confmaps": "CentroidConfmapsHead"},
    "centered_instance": {"confmaps": "CenteredInstanceConfmapsHead"},
    "bottomup": {"confmaps": "MultiInstanceConfmapsHead", "pafs": "PartAffinityFieldsHead"},
}


def execute(plan, choices=None):
    violations = []
    trace = []
    probes = {"forward_calls": 0, "frames_compared_with_pristine_copy": 0, "input_size_changed_between_calls": 0, "transposed_size_after_call": 0, "rng_jumps": 0, "raw_intensity_inputs": 0, "dark_frame_among_bright": 0,
              "batch_permuted": 0, "head_stride_differs_from_backbone_min": 0, "bottomup_two_strides": 0, "pafs_listed_before_confmaps": 0, "stem_blocks_used": 0, "family_" + plan["family"]: 1}
    fam, head = plan["family"], plan["head"]

    def V(kind, where, detail):
        violations.append({"kind": kind, "sig": f"{kind}:{where}", "detail": detail})

    cc = config_class(plan)
    # normalise like the training entry point does
    cfg = OmegaConf.create({"model_config": {"backbone_config": {"unet": None, "convnext": None, "swint": None},
                                             "head_configs": {h: None for h in HEADS}}})
    cfg.model_config.backbone_config[fam] = plan["backbone"]
    cfg.model_config.head_configs[head] = plan["head_cfg"]
    try:
        cfg = TrainingJobConfig.check_output_strides(cfg)
    except Exception as e:
        V("config_check_failed", f"{fam}:{type(e).__name__}", f"check_output_strides raised {type(e).__name__}: {e}")
    bb = cfg.model_config.backbone_config[fam]
    hc = cfg.model_config.head_configs[head]
    model = ref = None
    # violation-class signature: the configuration axis that identifies the failing family of grid points
    if fam == "unet" and bb.get("convs_per_block") == 1:
        where_cfg = "unet:convs_per_block=1"
    elif fam == "unet" and bb.get("middle_block") is False:
        where_cfg = "unet:middle_block=False"
    else:
        hs = sorted(v["output_stride"] for v in plan["head_cfg"].values())
        where_cfg = (f"{fam}:cpb{bb.get('convs_per_block')}:ui{bb.get('up_interpolate')}:stem{bb.get('stem_stride', bb.get('stem_patch_stride'))}"
                     f":rate{bb.get('filters_rate')}:heads{hs}")
    if not violations:
        try:
            torch.manual_seed(plan["init_seed"])
            model = Model(backbone_type=fam, backbone_config=bb, head_configs=hc, input_expand_channels=bb["in_channels"], model_type=head)
            model.eval()
            ref = copy.deepcopy(model)  # never called itself: every comparison runs on a fresh deep copy of it
            ref.eval()
            n_params = sum(p.numel() for p in model.parameters())
        except Exception as e:
            import traceback

            V("build_failed", f"{where_cfg}:{type(e).__name__}", f"assembling the model raised {type(e).__name__}: {e}; cfg={describe(plan)}\n{traceback.format_exc()[-700:]}")
    strides = sorted({v["output_stride"] for v in plan["head_cfg"].values()})
    if len(strides) > 1:
        probes["bottomup_two_strides"] = 1
        if list(plan["head_cfg"])[0] == "pafs":
            probes["pafs_listed_before_confmaps"] = 1
    if bb.get("stem_stride"):
        probes["stem_blocks_used"] = 1
    last_hw = None
    with torch.no_grad():
        for c in plan["calls"] if model is not None else []:
            if violations:
                break
            if c["op"] == "rng_jump":
                torch.manual_seed(c["seed"])
                probes["rng_jumps"] += 1
                trace.append("rng_jump")
                continue
            B, H, W = c["B"], c["H"], c["W"]
            g = torch.Generator().manual_seed(c["data"])
            x = torch.rand((B, bb["in_channels"], H, W), generator=g)
            rng_kind = c.get("range", "unit")
            if rng_kind != "unit":
                # float frames holding raw 0..255 intensities are valid inputs too; one almost-black frame among normally exposed ones
                x = x * 255.0
                probes["raw_intensity_inputs"] += 1
                if rng_kind == "dark_among_raw255" and B > 1:
                    x[0] = (x[0] > 200.0).float()
                    probes["dark_frame_among_bright"] += 1
            order = list(range(B))
            if c["perm"] and B > 1:
                random.Random(c["data"]).shuffle(order)
                probes["batch_permuted"] += 1
            xin = x[order]
            if last_hw is not None and last_hw != (H, W):
                probes["input_size_changed_between_calls"] += 1
                if last_hw == (W, H):
                    probes["transposed_size_after_call"] += 1
            last_hw = (H, W)
            trace.append(("forward", B, H, W))
            try:
                out = model(xin)
            except Exception as e:
                import traceback

                V("forward_failed", f"{where_cfg}:{type(e).__name__}",
                  f"forward on a ({B},{bb['in_channels']},{H},{W}) input raised {type(e).__name__}: {e}; cfg={describe(plan)}\n{traceback.format_exc()[-500:]}")
                break
            probes["forward_calls"] += 1
            exp = expected_shapes(plan, H, W)
            names = HEAD_NAMES[head]
            if not isinstance(out, dict) or set(out) != set(names.values()):
                V("wrong_outputs", f"{fam}:{head}", f"forward returned keys {sorted(out) if isinstance(out, dict) else type(out)}; expected one output per head {sorted(names.values())}")
                break
            for hk, hname in names.items():
                got = tuple(out[hname].shape)
                want = (B,) + exp[hk]
                if got != want:
                    V("wrong_shape", f"{fam}:{head}:{hk}",
                      f"{hname} output has shape {got}; the data pipeline produces targets of shape {want} for a {H}x{W} input at stride {plan['head_cfg'][hk]['output_stride']}; cfg={describe(plan)}")
                    break
                if plan["head_cfg"][hk]["output_stride"] != min(strides):
                    probes["head_stride_differs_from_backbone_min"] = 1
            if violations:
                break
            # per-frame determinism / independence against the pristine copy, one frame at a time
            fresh = None
            for k in range(B):
                if fresh is None or n_params < 2_000_000:
                    # a copy that has no call history at all (big presets: one fresh copy per call, reused for its <= 3 frames)
                    fresh = copy.deepcopy(ref)
                solo = fresh(x[order[k]:order[k] + 1])
                probes["frames_compared_with_pristine_copy"] += 1
                for hname in names.values():
                    a, b = out[hname][k], solo[hname][0]
                    if not torch.allclose(a, b, rtol=1e-4, atol=1e-5):
                        V("output_depends_on_history_or_batch", f"{fam}:{head}",
                          f"{hname} for frame {k} of call {trace[-1]} (after {trace[:-1]}) differs from a pristine copy called on that frame alone by "
                          f"{float((a - b).abs().max()):.3g}; cfg={describe(plan)}")
                        break
                if violations:
                    break
    return {
        "violations": violations,
        "digest": hashlib.blake2b(repr((trace, [v["sig"] for v in violations], cc)).encode(), digest_size=16).hexdigest(),
        "choices": [],
        "shape": hashlib.blake2b(repr(cc).encode(), digest_size=8).hexdigest(),
        "nontrivial": probes["forward_calls"] >= 2,
        "probes": probes,
        "faults": {"rng_jump": probes["rng_jumps"]},
        "sim_us": 0,
        "steps": len(trace),
        "fault_free": True,
        "states": [],
        "outcome": {"calls": probes["forward_calls"]},
    }
