"""C09 - tracking never drops, duplicates or double-assigns detections, never crashes."""

import copy

import numpy as np
import hashlib
import random

from worlds import trackworld as tw

ID = "C09"
LEVEL = "exploration"
RULE = (
    "one run = one seeded scene (K animals on trajectories over F frames) passed through a seeded sensor-fault "
    "model (missed / reappearing / permuted / duplicated / low-score / NaN-keypoint detections, empty frames) and "
    "fed frame by frame to the real Tracker under one seeded tracker configuration; the conservation oracle runs "
    "after every track() call. Non-trivial = at least 2 calls with detections and at least one change of the "
    "detected set between consecutive frames; distinct = digest of (configuration, per-frame presence/score-class pattern)"
)
COMPONENTS = {
    "real": ["sleap_nn.tracking.tracker.Tracker", "candidates.fixed_window", "candidates.local_queues",
             "tracking.utils (matching, features, scores)", "evaluation.compute_oks", "sleap_io.PredictedInstance/Track"],
    "stub": ["detections come from a simulated scene + sensor model, not from a network", "no images (FlowShiftTracker not exercised)"],
}
ASSUMPTIONS = [
    "every detection has at least 1 visible keypoint and a finite score (zero-width / zero-height / point-sized boxes included)",
    "max_tracks is None (the documented 'Exceeding max tracks' exception is by design and outside the statement)",
    "FlowShiftTracker (needs images / optical flow) is not simulated",
]
TIERS = {
    "quick": {"runs": 60000, "time_cap_s": 70, "chunk": 200, "det_inproc": 10, "det_fresh": 5, "minimise_s": 40},
    "thorough": {"runs": 3000000, "time_cap_s": 1200, "chunk": 1000, "det_inproc": 60, "det_fresh": 30, "minimise_s": 120},
}

FAULT_KINDS = ["missed_detection", "reappear", "permute_detections", "duplicate_detection", "low_score",
               "missing_keypoints", "empty_frame", "late_arrival", "everyone_gone"]


def gen_scene(rng, K, F, n_nodes, spread=400.0, step=6.0, size=8.0):
    animals = []
    for a in range(K):
        animals.append(
            {
                "pos": [rng.uniform(0, spread), rng.uniform(0, spread)],
                "vel": [rng.uniform(-step, step), rng.uniform(-step, step)],
                "offs": tw.shape_offsets(rng, n_nodes, size, degenerate=rng.choice([None] * 8 + ["vertical", "horizontal"])),
            }
        )
    frames = []
    for t in range(F):
        fr = []
        for a, an in enumerate(animals):
            an["pos"][0] += an["vel"][0] + rng.uniform(-1, 1)
            an["pos"][1] += an["vel"][1] + rng.uniform(-1, 1)
            jx, jy = rng.uniform(-0.5, 0.5), rng.uniform(-0.5, 0.5)  # the whole body jitters (degenerate shapes stay exactly axis-aligned)
            pts = [[round(an["pos"][0] + o[0] + jx, 2), round(an["pos"][1] + o[1] + jy, 2)] for o in an["offs"]]
            fr.append({"animal": a, "pts": pts, "score": round(rng.uniform(0.75, 1.0), 3)})
        frames.append(fr)
    return frames


def _frame_numbers(rng, F, fired):
    """Frame numbers handed to track(): usually 0..F-1, sometimes strided / irregular / offset (tracking every n-th
    frame, a clip starting mid-video). The window is counted in tracked frames, so identity must not depend on them."""
    if rng.random() >= 0.3:
        return None
    start = rng.choice([0, 0, 1, 7, 250])
    if rng.random() < 0.6:
        stride = rng.choice([2, 3, 5, 10])
        out = [start + i * stride for i in range(F)]
    else:
        out, cur = [], start
        for _ in range(F):
            out.append(cur)
            cur += rng.choice([1, 1, 2, 3, 6])
    fired["strided_frame_idx"] = fired.get("strided_frame_idx", 0) + 1
    return out


def gen_plan(rng, index, tier):
    big = tier == "thorough"
    K = rng.choice([1, 1, 2, 2, 3, 3, 4, 5, 6])
    F = rng.choice([2, 3, 4, 5, 6, 8, 10, 14, 20] + ([30, 40] if big else []))
    n_nodes = rng.choice([2, 3, 5])
    cfg = tw.gen_cfg(rng, K)
    truth = gen_scene(rng, K, F, n_nodes, spread=rng.choice([60.0, 400.0]))
    # presence pattern ------------------------------------------------------
    enabled = {k for k in FAULT_KINDS if rng.random() < 0.45}
    if index < len(FAULT_KINDS):
        enabled = {FAULT_KINDS[index]}
    fired = {}

    def fire(k):
        fired[k] = fired.get(k, 0) + 1

    present = [[True] * K for _ in range(F)]
    if "late_arrival" in enabled and K > 1:
        for a in range(1, K):
            if rng.random() < 0.6:
                t0 = rng.randint(1, F - 1) if F > 1 else 0
                for t in range(t0):
                    present[t][a] = False
                fire("late_arrival")
    if "missed_detection" in enabled:
        for t in range(F):
            for a in range(K):
                if rng.random() < 0.15 and present[t][a]:
                    present[t][a] = False
                    fire("missed_detection")
    if "reappear" in enabled:
        for a in range(K):
            if F >= 3 and rng.random() < 0.7:
                t0 = rng.randint(1, F - 2)
                gap = rng.randint(1, min(F - t0 - 1, 12))
                for t in range(t0, t0 + gap):
                    present[t][a] = False
                fire("reappear")
    if "empty_frame" in enabled:
        for t in range(F):
            if rng.random() < 0.15:
                present[t] = [False] * K
                fire("empty_frame")
    if "everyone_gone" in enabled and F >= 3:
        t0 = rng.randint(1, F - 1)
        for t in range(t0, min(F, t0 + rng.randint(1, 4))):
            present[t] = [False] * K
        fire("everyone_gone")
    frames = []
    thr = cfg["instance_score_threshold"]
    for t in range(F):
        fr = [d for d in truth[t] if present[t][d["animal"]]]
        if "low_score" in enabled:
            for d in fr:
                if rng.random() < 0.2:
                    # boundary scores: exactly the threshold (no promise), and the two smallest excesses a real pipeline produces -
                    # the next double above the threshold and the threshold rounded to float32 (network scores are float32)
                    f32 = float(np.float32(thr))
                    just_above = f32 if f32 > thr else float(np.nextafter(np.float32(thr), np.float32(1.0)))
                    d["score"] = rng.choice([0.0, thr, round(max(thr - 0.1, 0.0), 3), round(thr + 0.001, 3), float(np.nextafter(thr, 1.0)), just_above])
                    fire("low_score")
        if "missing_keypoints" in enabled and n_nodes > 2:
            for d in fr:
                if rng.random() < 0.25:
                    vis = list(range(n_nodes))
                    rng.shuffle(vis)
                    keep = 1 if rng.random() < 0.25 else 2  # sometimes a single visible keypoint (a point-sized bounding box)
                    for j in vis[keep:]:
                        if rng.random() < 0.6 or keep == 1:
                            d["pts"][j] = [float("nan"), float("nan")]
                    fire("missing_keypoints")
        if "duplicate_detection" in enabled and fr and rng.random() < 0.2:
            d = copy.deepcopy(rng.choice(fr))
            d["pts"] = [[round(x + 0.3, 2) if x == x else x, round(y - 0.2, 2) if y == y else y] for x, y in d["pts"]]
            d["dup"] = True
            fr.append(d)
            fire("duplicate_detection")
        if "permute_detections" in enabled and len(fr) > 1:
            rng.shuffle(fr)
            fire("permute_detections")
        frames.append(fr)
    plan = {"cfg": cfg, "n_nodes": n_nodes, "frames": frames, "K": K, "faults_fired": fired,
            "two_trackers": rng.random() < 0.1}
    fidx = _frame_numbers(rng, len(frames), fired)
    if fidx:
        plan["frame_idx"] = fidx
    return plan


def describe(plan):
    return {"cfg": plan["cfg"], "K": plan["K"], "n_nodes": plan["n_nodes"],
            "presence": ["".join(str(d["animal"]) for d in fr) or "-" for fr in plan["frames"]],
            "faults": plan.get("faults_fired", {})}


def shrink(plan):
    F = len(plan["frames"])
    if plan.get("frame_idx"):
        p = copy.deepcopy(plan)
        p.pop("frame_idx")
        yield p
    # drop suffix / prefix / single frames
    for cut in (F // 2, F - 1):
        if 1 <= cut < F:
            p = copy.deepcopy(plan)
            p["frames"] = p["frames"][:cut]
            yield p
    for i in range(F):
        if F > 1:
            p = copy.deepcopy(plan)
            del p["frames"][i]
            yield p
    # drop an animal everywhere
    animals = sorted({d["animal"] for fr in plan["frames"] for d in fr})
    for a in animals:
        p = copy.deepcopy(plan)
        p["frames"] = [[d for d in fr if d["animal"] != a] for fr in p["frames"]]
        yield p
    # drop single detections
    for i, fr in enumerate(plan["frames"]):
        for j in range(len(fr)):
            p = copy.deepcopy(plan)
            del p["frames"][i][j]
            yield p
    if plan.get("two_trackers"):
        p = copy.deepcopy(plan)
        p["two_trackers"] = False
        yield p
    # simpler configuration
    c = plan["cfg"]
    for k, v in (("instance_score_threshold", 0.0), ("scoring_reduction", "mean"), ("window_size", 5)):
        if c[k] != v:
            p = copy.deepcopy(plan)
            p["cfg"][k] = v
            yield p
    # un-NaN / normalise scores
    for i, fr in enumerate(plan["frames"]):
        for j, d in enumerate(fr):
            if d["score"] != 0.9:
                p = copy.deepcopy(plan)
                p["frames"][i][j]["score"] = 0.9
                yield p


def execute(plan, choices=None):
    res = tw.run_history(plan, n_trackers=2 if plan.get("two_trackers") else 1)
    frames = plan["frames"]
    thr = plan["cfg"]["instance_score_threshold"]
    pattern = []
    for fr in frames:
        pattern.append(tuple(sorted((d["animal"], d["score"] > thr, bool(d.get("dup"))) for d in fr)))
    changes = sum(1 for a, b in zip(pattern, pattern[1:]) if a != b)
    nonempty = sum(1 for fr in frames if fr)
    h = hashlib.blake2b(repr((sorted(plan["cfg"].items()), pattern)).encode(), digest_size=8).hexdigest()
    tr = hashlib.blake2b(repr((res["obs"], [v["sig"] for v in res["violations"]])).encode(), digest_size=16).hexdigest()
    probes = {
        "single_animal_scene": int(plan["K"] == 1),
        "newcomer_after_first_frame": int(any(
            any(d["animal"] not in {e["animal"] for fr0 in frames[:t] for e in fr0} for d in fr) for t, fr in enumerate(frames) if t > 0 and any(frames[:t]))),
        "gap_longer_than_window": int(_max_gap(frames) > plan["cfg"]["window_size"]),
        "more_detections_than_tracks": int(res["stats"]["max_tracks_seen"] > 0 and any(len(fr) > res["stats"]["max_tracks_seen"] for fr in frames)),
        "two_trackers_share_process": int(bool(plan.get("two_trackers"))),
        "degenerate_bbox_detection": int(any(_degenerate(d["pts"]) for fr in frames for d in fr)),
        "tracks_created_max": res["stats"]["max_tracks_seen"],
    }
    return {
        "violations": res["violations"],
        "digest": tr,
        "choices": [],
        "shape": h,
        "nontrivial": nonempty >= 2 and changes >= 1,
        "probes": probes,
        "faults": plan.get("faults_fired", {}),
        "sim_us": len(frames) * 33333,
        "steps": res["stats"]["calls"],
        "fault_free": not plan.get("faults_fired"),
        "states": [],
        "outcome": {"calls": res["stats"]["calls"], "tracks": res["stats"]["max_tracks_seen"]},
    }


def _max_gap(frames):
    last = {}
    best = 0
    for t, fr in enumerate(frames):
        for d in fr:
            a = d["animal"]
            if a in last:
                best = max(best, t - last[a] - 1)
            last[a] = t
    return best


def _degenerate(pts):
    v = [p for p in pts if p[0] == p[0]]
    return len(v) >= 1 and (len({p[0] for p in v}) == 1 or len({p[1] for p in v}) == 1)
