"""C10 - well-separated animals keep their identity across frames."""

import copy
import hashlib

from worlds import trackworld as tw

ID = "C10"
LEVEL = "exploration"
RULE = (
    "one run = one seeded scene from the class the property names: animals on a lattice of pitch D >= 10 body "
    "sizes, slow motion (wobble + drift <= 1 px/frame) or, for OKS / distance scoring, fast common motion of 12-24 px/frame without absences, absences of at most window_size-2 frames, optional empty leading frames, a "
    "newcomer only in a frame where every previously seen animal is detected, animals may leave for good, detection order permuted every "
    "frame, nodes 0/1 always visible; fed to the real Tracker under a seeded configuration. Oracle: the relation "
    "animal <-> track name over the whole history is an injective function. Non-trivial = >= 2 animals or an "
    "absence, and >= 3 frames; distinct = digest of (configuration, presence pattern, permutation pattern)"
)
COMPONENTS = {
    "real": ["sleap_nn.tracking.tracker.Tracker", "candidates.fixed_window", "candidates.local_queues",
             "tracking.utils", "evaluation.compute_oks"],
    "stub": ["detections from a simulated scene (ground-truth identity known to the harness)", "no images / optical flow"],
}
ASSUMPTIONS = [
    "scenario class fixed from the statement, not tuned: separation 10x body size, absences <= window-2 frames, "
    "newcomers only while everyone seen so far is visible, all scores above the new-track threshold, body-diagonal nodes always visible",
    "runs in which track() raises are left to C09; a detected in-class animal that comes back without a track is reported here too (identity_missing)",
]
TIERS = {
    "quick": {"runs": 60000, "time_cap_s": 70, "chunk": 200, "det_inproc": 10, "det_fresh": 5, "minimise_s": 40},
    "thorough": {"runs": 3000000, "time_cap_s": 1200, "chunk": 1000, "det_inproc": 60, "det_fresh": 30, "minimise_s": 120},
}


def _frame_numbers(rng, F, fired):
    """Frame numbers handed to track(): usually 0..F-1, sometimes strided / irregular / offset (tracking every n-th
    frame, a clip starting mid-video). The window is counted in tracked frames, so identity must not depend on them."""
    if rng.random() >= 0.3:
        return None
    start = rng.choice([0, 0, 1, 7, 250])
    if rng.random() < 0.6:
        stride = rng.choice([2, 3, 5, 10])
        out = [start + i * stride for i in range(F)]
    else:
        out, cur = [], start
        for _ in range(F):
            out.append(cur)
            cur += rng.choice([1, 1, 2, 3, 6])
    fired["strided_frame_idx"] = fired.get("strided_frame_idx", 0) + 1
    return out


def gen_plan(rng, index, tier):
    big = tier == "thorough"
    K = rng.choice([1, 2, 2, 3, 3, 4, 5, 6])
    F = rng.choice([3, 4, 5, 6, 8, 10, 14, 20] + ([30, 40] if big else []))
    n_nodes = rng.choice([2, 3, 5])
    cfg = tw.gen_cfg(rng, K)
    W = cfg["window_size"]
    size = 8.0
    D = rng.choice([80.0, 120.0, 300.0])
    cells = [(i, j) for i in range(4) for j in range(4)]
    rng.shuffle(cells)
    homes = [(50 + D * c[0], 50 + D * c[1]) for c in cells[:K]]
    offs = [tw.shape_offsets(rng, n_nodes, size) for _ in range(K)]
    drift = (rng.uniform(-0.5, 0.5), rng.uniform(-0.5, 0.5)) if rng.random() < 0.5 else (0.0, 0.0)
    wob = rng.choice([0.0, 0.2, 0.5])
    # flat bodies (every node on one horizontal / vertical line: a zero-height or zero-width box). Box overlap is defined
    # with the inclusive-pixel "+1", so such an animal still overlaps itself as long as it moves less than a pixel across its
    # line: IoU configurations only, no drift, wobble <= 0.2 (OKS is undefined for a zero-area body and is left out)
    flat = cfg["scoring_method"] == "iou" and rng.random() < 0.25
    if flat:
        drift, wob = (0.0, 0.0), rng.choice([0.0, 0.2])
        for a in range(K):
            if rng.random() < 0.6:
                offs[a] = tw.shape_offsets(rng, n_nodes, size, degenerate=rng.choice(["vertical", "horizontal"]))
    # fast common motion (a panning camera): every animal moves 12-24 px (> one body length) per frame while staying D apart.
    # With OKS its similarity to its own last pose is tiny (exp(-d^2/1.28), ~1e-50..1e-200) but strictly positive in double
    # precision while every other animal scores exactly 0, so the match is still unique; distances work at any speed. Boxes stop
    # overlapping, so IoU configurations stay slow; absences would push the similarity to exactly 0, so fast scenes have none.
    fast = cfg["scoring_method"] in ("oks", "euclidean_dist") and rng.random() < 0.25
    convoy = False
    if fast:
        ang = rng.uniform(0, 6.283)
        speed = rng.uniform(12.0, 24.0)
        import math as _m
        drift = (speed * _m.cos(ang), speed * _m.sin(ang))
        # "far apart compared with how far they move": the whole window's worth of motion must stay well below the separation,
        # otherwise a newcomer can legitimately sit where a neighbour was W frames ago
        # (local queues never forget a departed animal's last poses, so nobody may ever pass where somebody else has been)
        D = max(D, 1.25 * speed * (F + W))
        homes = [(50 + D * c[0], 50 + D * c[1]) for c in cells[:K]]
        # convoy: the animals follow one another along the line of motion, far apart at every instant (L >= 100 px + a window's
        # worth of travel) - but a follower does pass where the animal ahead of it WAS, more than two windows ago. A tracker
        # that looks back no further than its window cannot be confused by that; one that never forgets can.
        convoy = K >= 2 and rng.random() < 0.4
        if convoy:
            L = speed * (2 * W + 4) + 40.0
            homes = [(50 + a * L * _m.cos(ang), 50 + a * L * _m.sin(ang)) for a in range(K)]
    # arrival times: animal 0 from the start; later arrivals only in frames where all seen so far are present
    present = [[False] * K for _ in range(F)]
    arrive = [0] * K
    for a in range(1, K):
        arrive[a] = 0 if rng.random() < 0.5 else rng.randint(1, F - 1)
    for t in range(F):
        for a in range(K):
            present[t][a] = t >= arrive[a]
    max_gap = 0 if fast else max(W - 2, 0)
    fired = {}
    if flat:
        fired["flat_body"] = 1
    if fast:
        fired["fast_common_motion"] = 1
    if convoy:
        fired["convoy"] = 1
    lead = rng.randint(1, 3) if (rng.random() < 0.15 and F > 5) else 0
    if lead:
        # nothing in view for the first frames: the first tracked frames create no track at all
        arrive = [a_ + lead for a_ in arrive]
        arrive = [min(a_, F - 2) for a_ in arrive]
        for t in range(F):
            for a in range(K):
                present[t][a] = t >= arrive[a]
        fired["empty_leading_frames"] = lead
    # shy newcomers: a late arrival whose first detections score at or below the new-track threshold (it gets no identity yet);
    # conf[a] is its first confident frame. Nobody is absent from its first sighting until it has become confident.
    thr = cfg["instance_score_threshold"]
    conf = list(arrive)
    shy = {}
    if thr > 0 and not fast:
        for a in range(1, K):
            if arrive[a] > 0 and F - arrive[a] >= 3 and rng.random() < 0.6:
                m = rng.randint(1, min(10, F - arrive[a] - 2))
                conf[a] = arrive[a] + m
                shy[a] = (arrive[a], conf[a])
                fired["shy_newcomer"] = fired.get("shy_newcomer", 0) + 1
    if max_gap > 0:
        for a in range(K):
            t = conf[a] + 1
            while t < F:
                if rng.random() < 0.2:
                    g = rng.randint(1, max_gap)
                    if t + g < F:  # must come back to be observed
                        # not during somebody's arrival (from first sighting to first confident frame)
                        if not any(set(range(arrive[b], conf[b] + 1)) & set(range(t, t + g)) and b != a for b in range(K)):
                            for u in range(t, t + g):
                                present[u][a] = False
                            fired["reappear_within_window"] = fired.get("reappear_within_window", 0) + 1
                            t += g + 1
                            continue
                t += 1
    # permanent departures: an animal leaves for good (after the last arrival, so no newcomer ever appears while it is
    # missing); the animals that stay are never absent and must keep their identities however stale the leaver's track gets
    last_arrival = max(conf)
    if K > 1 and F - last_arrival > 3 and not convoy:  # (a follower would walk through the last poses a local queue keeps of a leaver)
        for a in range(K):
            if rng.random() < 0.2 and sum(1 for b in range(K) if present[F - 1][b]) > 1:
                td = rng.randint(last_arrival + 1, F - 2)
                for u in range(td, F):
                    present[u][a] = False
                fired["permanent_departure"] = fired.get("permanent_departure", 0) + 1
    if any(arrive[a] > 0 for a in range(K)):
        fired["late_arrival"] = sum(1 for a in range(K) if arrive[a] > 0)
    # wander: every animal walks its own way, a few pixels per frame but arbitrarily far over the clip (further than the
    # distance to its neighbours), never coming within D_min of where any OTHER animal is or has been (local queues never forget)
    wander = (not fast) and (not flat) and rng.random() < (0.7 if shy else 0.3)  # a stale window only shows once the animals have walked away from it
    path = None
    if wander:
        fired["wander"] = 1
        step = rng.uniform(1.5, 3.0)
        if cfg["scoring_method"] == "iou":
            # box overlap is the only evidence IoU has: what an animal walks during its longest absence must leave its box
            # overlapping its own last box (otherwise every score is exactly 0 and any assignment is as good as another)
            step = rng.uniform(0.3, 1.0) * size / ((max_gap + 1) * 1.42)
        d_min = 60.0
        pos = [list(h) for h in homes]
        vel = [[rng.uniform(-step, step), rng.uniform(-step, step)] for _ in range(K)]
        trail = [[] for _ in range(K)]  # every position an animal has ever been detected at
        path = []
        for t in range(F):
            row = []
            for a in range(K):
                if rng.random() < 0.2:
                    vel[a] = [rng.uniform(-step, step), rng.uniform(-step, step)]
                for _try in range(6):
                    nx, ny = pos[a][0] + vel[a][0], pos[a][1] + vel[a][1]
                    ok_ = all(((nx - q[0]) ** 2 + (ny - q[1]) ** 2) ** 0.5 >= d_min for b in range(K) if b != a for q in trail[b] + [pos[b]])
                    if ok_:
                        pos[a] = [nx, ny]
                        break
                    vel[a] = [rng.uniform(-step, step), rng.uniform(-step, step)]
                row.append(tuple(pos[a]))
                if present[t][a]:
                    trail[a].append(tuple(pos[a]))
            path.append(row)
    frames = []
    for t in range(F):
        fr = []
        for a in range(K):
            if not present[t][a]:
                continue
            cx = homes[a][0] + drift[0] * t + rng.uniform(-wob, wob)
            cy = homes[a][1] + drift[1] * t + rng.uniform(-wob, wob)
            if path is not None:
                cx, cy = path[t][a]
            pts = [[round(cx + o[0], 2), round(cy + o[1], 2)] for o in offs[a]]
            if n_nodes > 2 and rng.random() < 0.2:
                for j in range(2, n_nodes):
                    if rng.random() < 0.5:
                        pts[j] = [float("nan"), float("nan")]
                        fired["missing_keypoints"] = fired.get("missing_keypoints", 0) + 1
            sc = round(rng.uniform(0.75, 1.0), 3)
            if a in shy and shy[a][0] <= t < shy[a][1]:
                sc = round(thr * rng.choice([0.3, 0.6, 1.0]), 3)  # at or below the threshold: no track is promised
            fr.append({"animal": a, "pts": pts, "score": sc})
        if len(fr) > 1:
            rng.shuffle(fr)
            fired["permute_detections"] = fired.get("permute_detections", 0) + 1
        frames.append(fr)
    plan = {"cfg": cfg, "n_nodes": n_nodes, "frames": frames, "K": K, "faults_fired": fired, "D": D}
    fidx = _frame_numbers(rng, len(frames), fired)
    if fidx:
        plan["frame_idx"] = fidx
    return plan


def describe(plan):
    return {"cfg": plan["cfg"], "K": plan["K"], "D": plan.get("D"),
            "presence": ["".join(str(d["animal"]) for d in fr) or "-" for fr in plan["frames"]],
            "faults": plan.get("faults_fired", {})}


def in_class(plan):
    """Re-check the scenario class on a (possibly shrunk) plan."""
    W = plan["cfg"]["window_size"]
    thr = plan["cfg"]["instance_score_threshold"]
    seen = set()
    last = {}
    for t, fr in enumerate(plan["frames"]):
        here = {d["animal"] for d in fr}
        if len(here) != len(fr):
            return False
        if any(d["score"] <= thr for d in fr) and not seen <= here:
            return False  # somebody is missing while an animal without an identity is in view
        new = here - seen
        if new and seen and not seen <= here:
            return False  # newcomer while somebody seen before is missing
        if len(new) and seen and len(new) > 0 and not (seen <= here):
            return False
        for a in here:
            if a in last and t - last[a] - 1 > max(W - 2, 0):
                return False
            last[a] = t
        seen |= here
    return True


def shrink(plan):
    F = len(plan["frames"])
    cands = []
    if plan.get("frame_idx"):
        p = copy.deepcopy(plan)
        p.pop("frame_idx")
        cands.append(p)
    fast = "fast_common_motion" in plan.get("faults_fired", {}) or "wander" in plan.get("faults_fired", {})
    for cut in (F // 2, F - 1):
        if 2 <= cut < F:
            p = copy.deepcopy(plan)
            p["frames"] = p["frames"][:cut]
            cands.append(p)
    for i in range(F):
        if F > 2 and not fast:  # dropping a frame of a fast scene multiplies the per-frame motion: out of class
            p = copy.deepcopy(plan)
            del p["frames"][i]
            cands.append(p)
    animals = sorted({d["animal"] for fr in plan["frames"] for d in fr})
    for a in animals:
        p = copy.deepcopy(plan)
        p["frames"] = [[d for d in fr if d["animal"] != a] for fr in p["frames"]]
        cands.append(p)
    for i, fr in enumerate(plan["frames"]):
        s = sorted(fr, key=lambda d: d["animal"])
        if s != fr:
            p = copy.deepcopy(plan)
            p["frames"][i] = s
            cands.append(p)
    c = plan["cfg"]
    for k, v in (("instance_score_threshold", 0.0), ("scoring_reduction", "mean")):
        if c[k] != v:
            p = copy.deepcopy(plan)
            p["cfg"][k] = v
            cands.append(p)
    for p in cands:
        if in_class(p):
            yield p


def execute(plan, choices=None):
    res = tw.run_history(plan, n_trackers=1)
    violations = []
    obs = res["obs"][0]
    c09_crash = any(v["kind"] == "crash" for v in res["violations"])
    if not c09_crash and in_class(plan):
        a2t, t2a = {}, {}
        thr = plan["cfg"]["instance_score_threshold"]
        for t, row in enumerate(obs):
            for (animal, tname), det in zip(row, plan["frames"][t]):
                if tname in (None, "<dropped>") and det["score"] <= thr:
                    continue  # at or below the new-track threshold and unmatched: no identity is promised (nor claimed) yet
                if tname in (None, "<dropped>"):
                    # every detection of the class scores above the threshold: a detected animal without a track has no identity to keep
                    violations.append({
                        "kind": "identity_missing",
                        "sig": f"identity_missing:{plan['cfg']['candidates_method']}",
                        "detail": f"animal {animal} is detected on frame {t} but comes back {'without a track' if tname is None else 'not at all'}; "
                                  f"history={_hist(obs)}; cfg={plan['cfg']}"})
                    break
                if animal in a2t and a2t[animal] != tname:
                    violations.append({
                        "kind": "identity_switch",
                        "sig": f"identity_switch:{plan['cfg']['candidates_method']}",
                        "detail": f"animal {animal} carried track {a2t[animal]} earlier but track {tname} on frame {t}; "
                                  f"history={_hist(obs)}; cfg={plan['cfg']}"})
                    break
                if tname in t2a and t2a[tname] != animal:
                    violations.append({
                        "kind": "identity_shared",
                        "sig": f"identity_shared:{plan['cfg']['candidates_method']}",
                        "detail": f"track {tname} was held by animal {t2a[tname]} and is given to animal {animal} on frame {t}; "
                                  f"history={_hist(obs)}; cfg={plan['cfg']}"})
                    break
                a2t[animal] = tname
                t2a[tname] = animal
            if violations:
                break
    frames = plan["frames"]
    pattern = [tuple(d["animal"] for d in fr) for fr in frames]
    h = hashlib.blake2b(repr((sorted(plan["cfg"].items()), pattern)).encode(), digest_size=8).hexdigest()
    tr = hashlib.blake2b(repr((obs, [v["sig"] for v in violations])).encode(), digest_size=16).hexdigest()
    K_seen = len({d["animal"] for fr in frames for d in fr})
    had_gap = any(k.startswith("reappear") for k in plan.get("faults_fired", {}))
    return {
        "violations": violations,
        "digest": tr,
        "choices": [],
        "shape": h,
        "nontrivial": len(frames) >= 3 and (K_seen >= 2 or had_gap),
        "probes": {
            "c09_oracle_failed_run_skipped": int(bool(res["violations"])),
            "newcomer_while_all_visible": int("late_arrival" in plan.get("faults_fired", {})),
            "absence_within_window": int(had_gap),
            "single_animal": int(K_seen == 1),
            "permuted_every_frame": int("permute_detections" in plan.get("faults_fired", {})),
            "animal_left_for_good": int("permanent_departure" in plan.get("faults_fired", {})),
            "fast_common_motion": int("fast_common_motion" in plan.get("faults_fired", {})),
            "convoy_follower_passes_old_positions": int("convoy" in plan.get("faults_fired", {}) and len(frames) > 2 * plan["cfg"]["window_size"] + 6),
            "wander_far_over_time": int("wander" in plan.get("faults_fired", {})),
            "empty_leading_frames": int("empty_leading_frames" in plan.get("faults_fired", {})),
            "shy_newcomer_below_threshold": int("shy_newcomer" in plan.get("faults_fired", {})),
            "flat_body_zero_area_box": int("flat_body" in plan.get("faults_fired", {})),
        },
        "faults": plan.get("faults_fired", {}),
        "sim_us": len(frames) * 33333,
        "steps": res["stats"]["calls"],
        "fault_free": not plan.get("faults_fired"),
        "states": [],
        "outcome": {"history": _hist(obs)[:12]},
    }


def _hist(obs):
    return [" ".join(f"{a}:{t}" for a, t in row) or "-" for row in obs]
