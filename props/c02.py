"""C02 - single-instance and top-down inference return original-image coordinates."""

import copy
import hashlib
import math

import numpy as np

from worlds import predworld as pw

ID = "C02"
LEVEL = "exploration"
RULE = (
    "one run = one seeded configuration (image H,W; max_height/width none/larger/smaller/mixed; input scale of each stage; "
    "max_stride; output strides; crop size; refinement; batch; dtype; anchor) x one scene of animals in general position on "
    "coordinate-carrying frames, pushed through the simulated inference stream with BOTH providers; the network is an ideal "
    "stub that decodes from the tensor it is given where the content came from and answers with closed-form Gaussian maps. "
    "Oracle: every visible keypoint within the derived tolerance of the truth in ORIGINAL coordinates, invisible -> NaN/0, "
    "LabelsReader == VideoReader. Non-trivial = at least one keypoint compared with scale*eff_scale != 1 or padding or "
    "stride > 1; distinct = digest of the configuration class"
)
COMPONENTS = {
    "real": ["SingleInstancePredictor / TopDownPredictor (make_pipeline, _initialize_inference_model, _predict_generator)",
             "SingleInstanceInferenceModel, CentroidCrop, FindInstancePeaks, TopDownInferenceModel", "find_global_peaks / find_local_peaks / integral_regression / crop_bboxes",
             "apply_normalization, apply_sizematcher, resize_image, apply_pad_to_stride, make_centered_bboxes", "VideoReader / LabelsReader threads"],
    "stub": ["trained network -> IdealNet (content-decoding, closed-form Gaussian bumps written in the harness from C01's statement)",
             "queue.Queue -> SimQueue under the baton scheduler", "media -> in-memory coordinate-carrying frames"],
}
ASSUMPTIONS = [
    "tolerance = 0.5*S/s + 0.5*|1/s - 1| + rho/s + 0.6 original pixels (S head stride, s = input scale x eff_scale, rho size rounding of int()/round()); looser than the statement, never stricter",
    "general position: keypoints >= 4 output cells (+2 px) from every map border, animals further apart than 1.5 crops, body fits well inside the crop",
    "make_labels=False records (the make_labels=True path is blocked by the sleap-io 0.9.2 API change in this sandbox)",
    "RGB coordinate-carrying frames only (is_rgb=True)",
]
TIERS = {
    "quick": {"runs": 5000, "time_cap_s": 90, "chunk": 20, "det_inproc": 5, "det_fresh": 3, "minimise_s": 60},
    "thorough": {"runs": 200000, "time_cap_s": 1200, "chunk": 50, "det_inproc": 20, "det_fresh": 10, "minimise_s": 180},
}


def eff_scale(H, W, mh, mw):
    mh = H if mh is None else mh
    mw = W if mw is None else mw
    if (H, W) == (mh, mw):
        return 1.0, H, W, 0.0
    e = min(mh / H, mw / W)
    th, tw = int(round(H * e)), int(round(W * e))
    return e, mh, mw, max(abs(H * e - th), abs(W * e - tw))


def gen_plan(rng, index, tier):
    for _attempt in range(300):
        kind = "single" if index % 2 == 0 else "topdown"
        H, W = rng.randint(48, 160), rng.randint(48, 160)
        mixed = rng.random() < 0.3  # a labels file whose two videos have different frame sizes
        sizes = [[H, W], [rng.randint(48, 160), rng.randint(48, 160)] if mixed else [H, W]]
        r = rng.random()
        if mixed:
            # size matching is what makes mixed sizes batchable: a user-set max size (larger, smaller or in between)
            mh, mw = rng.choice([max(sizes[0][0], sizes[1][0]), rng.randint(40, 200)]), rng.choice([max(sizes[0][1], sizes[1][1]), rng.randint(40, 200)])
        elif r < 0.35:
            mh = mw = None
        elif r < 0.55:
            mh, mw = H + rng.randint(0, 40), W + rng.randint(0, 40)
        elif r < 0.75:
            mh, mw = max(40, H - rng.randint(0, 40)), max(40, W - rng.randint(0, 40))
        else:
            mh, mw = rng.randint(40, 200), rng.randint(40, 200)
        n_nodes = rng.choice([1, 2, 3, 4])
        blob = rng.random() < 0.15  # grayscale path: single-channel float frames with one-node animals drawn as blobs
        if blob:
            n_nodes = 1
        refinement = rng.choice([None, "integral"])
        plan = {"kind": kind, "H": H, "W": W, "max_hw": [mh, mw], "n_nodes": n_nodes, "refinement": refinement,
                "batch": rng.choice([1, 2, 3, 4]), "dtype": rng.choice(["uint8", "uint8", "float32"]), "sigma": rng.choice([1.5, 2.0]),
                "cap": rng.choice([1, 2, 4]), "anchor": None, "edges": [[i, i + 1] for i in range(n_nodes - 1)]}
        if mixed:
            plan["sizes"] = sizes
            plan["batch"] = rng.choice([2, 3, 4])
            plan["same_filename"] = rng.random() < 0.3  # both videos embedded in one package file
        if blob:
            plan["frame_kind"] = "blob"
            plan["dtype"] = "float32"

        def stage():
            ms = rng.choice([1, 2, 4, 8, 16, 32])
            st = rng.choice([s for s in (1, 2, 4, 8) if s <= ms] or [1])
            return {"scale": rng.choice([0.5, 0.75, 1.0, 1.0, 1.25, 2.0]), "max_stride": ms, "stride": st}

        n_frames = rng.randint(2, 5) if mixed else rng.randint(1, 4)
        frames = []
        ok = True
        if kind == "single":
            plan["single"] = stage()
        else:
            plan["centroid"] = stage()
            plan["centered"] = stage()
            plan["anchor"] = rng.choice([None] + list(range(n_nodes)))
            cms = plan["centered"]["max_stride"]
            crop = int(math.ceil(rng.choice([32, 48, 64]) / cms) * cms)
            crop2 = int(math.ceil(rng.choice([32, 48, 64]) / cms) * cms) if rng.random() < 0.3 else crop  # crop_hw is (height, width): not always square
            if rng.random() < 0.25:
                # a user-set crop size need not be a multiple of the centered-instance max stride (the crop is then stride-padded)
                crop, crop2 = rng.choice([36, 40, 52, 72]), rng.choice([36, 40, 52, 72])
            plan["crop_hw"] = [crop, crop2]
            plan["max_instances"] = None
            if rng.random() < 0.2:
                plan["gt_centroids"] = True  # only the centered-instance model is given: crops are cut around the labelled centroids
        if blob:
            # wide enough that the stride grid still sees a unique maximum above the 0.2 threshold after every rescale
            st_list = [plan[k] for k in ("single", "centroid", "centered") if k in plan]
            e_min = min(eff_scale(sz[0], sz[1], mh, mw)[0] for sz in sizes)
            plan["blob_sigma"] = max(2.5, max(1.0 * st["stride"] / (st["scale"] * e_min) for st in st_list))
        fidxs = list(range(8))
        rng.shuffle(fidxs)  # unique frame indices across both videos: (vid, fidx) identifies a frame
        for k in range(n_frames):
            fr = {"k": k}
            if mixed:
                fr["vid"], fr["fidx"] = (k if k < 2 else rng.randrange(2)), fidxs[k]  # both sizes occur, early enough to share a batch
            fH, fW = sizes[fr["vid"]] if mixed else (H, W)
            e, IH, IW, r1 = eff_scale(fH, fW, mh, mw)
            if kind == "single":
                s_, S = plan["single"]["scale"], plan["single"]["stride"]
                sig = s_ * e
                margin = 4.0 * S / sig + 3.0 + (2.0 * plan["blob_sigma"] if blob else 0.0)
                if 2 * margin + 4 > min(fH, fW):
                    ok = False
                    break
                pts = [[rng.uniform(margin, fW - 1 - margin), rng.uniform(margin, fH - 1 - margin)] for _ in range(n_nodes)]  # full precision: no exact half-cell ties
                if n_nodes > 1 and rng.random() < 0.3:
                    for j in rng.sample(range(n_nodes), rng.randint(1, n_nodes - 1)):
                        pts[j] = [float("nan"), float("nan")]
                if rng.random() < 0.12:
                    pts = [[float("nan"), float("nan")] for _ in range(n_nodes)]  # nothing visible in this frame
                fr["animals"] = [pts]
            else:
                ci = plan["centered"]
                crop_lo, crop = min(plan["crop_hw"]), max(plan["crop_hw"])
                sig_ci = ci["scale"] * e
                sig_c = plan["centroid"]["scale"] * e
                S_ci, S_c = ci["stride"], plan["centroid"]["stride"]
                # body half-extent (original px) so that the body sits >= 4 cells + 2 px inside the crop
                ext = (crop_lo / 2.0 - 4.0 * S_ci - 3.0) / sig_ci
                if ext < 2.0:
                    ok = False
                    break
                ext = min(ext, 12.0)
                margin = max(4.0 * S_c / sig_c + 3.0, ext + 2.0) + (2.0 * plan["blob_sigma"] if blob else 0.0)
                sep = 1.6 * crop / sig_ci + 2 * ext + 8.0 * S_c / sig_c + (8.0 * plan["blob_sigma"] if blob else 0.0)
                if 2 * margin + 4 > min(fH, fW):
                    ok = False
                    break
                animals, cents = [], []
                n_an = 0 if (n_frames > 1 and rng.random() < 0.25) else rng.randint(1, 3)  # empty frames next to populated ones
                for a in range(n_an):
                    for _t in range(30):
                        cx, cy = rng.uniform(margin, fW - 1 - margin), rng.uniform(margin, fH - 1 - margin)
                        if all(max(abs(cx - c[0]), abs(cy - c[1])) > sep for c in cents):
                            break
                    else:
                        break
                    cents.append((cx, cy))
                    # every node within ext/2 of the body centre => within ext of whichever node/midpoint the crop is centred on
                    pts = [[cx + rng.uniform(-ext / 2, ext / 2), cy + rng.uniform(-ext / 2, ext / 2)] for _ in range(n_nodes)]
                    pts = [[min(max(p[0], 1.0), fW - 2.0), min(max(p[1], 1.0), fH - 2.0)] for p in pts]
                    if n_nodes > 1 and rng.random() < 0.3:
                        for j in rng.sample(range(n_nodes), rng.randint(1, n_nodes - 1)):
                            pts[j] = [float("nan"), float("nan")]
                    animals.append(pts)
                fr["animals"] = animals
            frames.append(fr)
        if not ok or not frames or all(len(f["animals"]) == 0 for f in frames):
            continue
        plan["frames"] = frames
        return plan
    raise RuntimeError("could not generate a C02 plan")


def describe(plan):
    d = {k: plan[k] for k in ("kind", "H", "W", "max_hw", "n_nodes", "refinement", "batch", "dtype", "anchor") if k in plan}
    for k in ("single", "centroid", "centered", "crop_hw", "gt_centroids"):
        if k in plan:
            d[k] = plan[k]
    d["animals_per_frame"] = [len(f["animals"]) for f in plan["frames"]]
    if plan.get("frame_kind") == "blob":
        d["frame_kind"] = "blob"
        d["blob_sigma"] = round(plan["blob_sigma"], 2)
    if "sizes" in plan:
        d["sizes"] = plan["sizes"]
        d["frame_vid"] = [f.get("vid") for f in plan["frames"]]
    return d


def shrink(plan):
    def mod(**kw):
        p = copy.deepcopy(plan)
        p.update(kw)
        return p

    fr = plan["frames"]
    if len(fr) > 1:
        for i in range(len(fr)):
            p = copy.deepcopy(plan)
            del p["frames"][i]
            yield p
    for i, f in enumerate(fr):
        if len(f["animals"]) > 1:
            for j in range(len(f["animals"])):
                p = copy.deepcopy(plan)
                del p["frames"][i]["animals"][j]
                yield p
    if plan["batch"] != 1:
        yield mod(batch=1)
    if plan["refinement"]:
        yield mod(refinement=None)
    if plan["dtype"] != "uint8" and plan.get("frame_kind") != "blob":
        yield mod(dtype="uint8")
    mixed = "sizes" in plan and len({tuple(x) for x in plan["sizes"]}) > 1
    if plan["max_hw"] != [None, None] and not mixed:
        yield mod(max_hw=[None, None])
    if mixed and len({f.get("vid") for f in plan["frames"]}) == 1:
        # all remaining frames come from one video: the plan is no longer mixed
        v = plan["frames"][0]["vid"]
        p = copy.deepcopy(plan)
        p["H"], p["W"] = plan["sizes"][v]
        p.pop("sizes")
        for f in p["frames"]:
            f.pop("vid", None)
            f.pop("fidx", None)
        yield p
    for st in ("single", "centroid", "centered"):
        if st in plan:
            for k, v in (("scale", 1.0), ("max_stride", 1), ("stride", 1)):
                if plan[st][k] != v and not (k == "max_stride" and plan[st]["stride"] > 1):
                    p = copy.deepcopy(plan)
                    p[st][k] = v
                    if st == "centered" and k == "max_stride":
                        pass
                    yield p
    for i, f in enumerate(fr):
        for j, a in enumerate(f["animals"]):
            if any(q[0] != q[0] for q in a) and False:
                yield plan


def _rho(plan, st, f=None):
    H, W = pw.frame_hw(plan, f) if f is not None else (plan["H"], plan["W"])
    e, IH, IW, r1 = eff_scale(H, W, plan["max_hw"][0], plan["max_hw"][1])
    s = plan[st]["scale"]
    r2 = max(IH * s - int(IH * s), IW * s - int(IW * s)) if s != 1.0 else 0.0
    return e, s, r1 * s + r2


def _tol(S, sig, rho):
    return 0.5 * S / sig + 0.5 * abs(1.0 / sig - 1.0) + rho / sig + 0.6


def _collect(plan, records):
    """-> {(video_idx, frame_idx): list of (pts (nodes,2), vals (nodes,))} in original coordinates."""
    out = {}
    for r in records:
        fidx = np.asarray(r["frame_idx"]).reshape(-1)
        vidx = np.asarray(r["video_idx"]).reshape(-1)
        for b in range(len(fidx)):
            key = (int(vidx[b]), int(fidx[b]))
            if plan["kind"] == "single":
                out.setdefault(key, []).append((np.asarray(r["pred_instance_peaks"][b], dtype=np.float64),
                                                np.asarray(r["pred_peak_values"][b], dtype=np.float64)))
            else:
                bbox = np.asarray(r["instance_bbox"][b]).reshape(4, 2)
                pts = np.asarray(r["pred_instance_peaks"][b], dtype=np.float64) + bbox[0]
                out.setdefault(key, []).append((pts, np.asarray(r["pred_peak_values"][b], dtype=np.float64)))
    return out


def _fkey(plan, f, i, provider):
    if provider == "labels" and "vid" in f:
        return (f["vid"], f["fidx"])
    return (0, i)


def execute(plan, choices=None):
    violations = []
    probes = {"keypoints_compared": 0, "invisible_checked": 0, "scaled_runs": 0, "size_matched_runs": 0, "padded_runs": 0,
              "worst_err_over_tol_x1000_max": 0, "provider_pairs_compared": 0, "integral_refinement": 0, "instances_compared": 0, "degenerate_tie_scene_skipped": 0, "mixed_frame_sizes": 0, "frame_without_visible_animal": 0,
              "grayscale_blob_frames": int(plan.get("frame_kind") == "blob"), "ground_truth_centroid_runs": int(bool(plan.get("gt_centroids"))),
              "non_square_crop": int(plan.get("crop_hw") is not None and plan["crop_hw"][0] != plan["crop_hw"][1]),
              "crop_not_multiple_of_stride": int(plan.get("crop_hw") is not None and any(c % plan["centered"]["max_stride"] for c in plan["crop_hw"]))}

    def V(kind, where, detail):
        violations.append({"kind": kind, "sig": f"{kind}:{where}", "detail": detail})

    kind = plan["kind"]
    st = "single" if kind == "single" else "centered"
    S = plan[st]["stride"]
    s = plan[st]["scale"]
    mixed = "sizes" in plan and len({tuple(x) for x in plan["sizes"]}) > 1
    any_sig_not_one = False
    results = {}
    digests = []
    last_nets = {}
    only_labels = mixed or bool(plan.get("gt_centroids"))  # no VideoReader for mixed sizes / ground-truth centroids
    for provider in (("labels",) if only_labels else ("video", "labels")):
        try:
            records, end, err, sim, nets = pw.run_predictor(plan, provider, choices if provider == ("labels" if only_labels else "video") else None)
            last_nets = nets
        except Exception as ex:
            import traceback

            V("inference_failed", f"{kind}:{provider}:{type(ex).__name__}", f"{type(ex).__name__}: {ex}\n{traceback.format_exc()[-900:]}")
            break
        digests.append(sim.digest())
        if sim.failure:
            V(sim.failure["kind"], f"{kind}:{provider}", sim.failure["detail"])
            break
        if end != "ok":
            V("inference_failed", f"{kind}:{provider}:{(err or '').split(':')[0]}", f"_predict_generator ended with {end}: {err}")
            break
        got = _collect(plan, records)
        results[provider] = got
        # ---- accuracy against the scene
        for fi, f in enumerate(plan["frames"]):
            preds = got.get(_fkey(plan, f, fi, provider), [])
            animals = [np.array(a, dtype=np.float64) for a in f["animals"]]
            e, _s, rho = _rho(plan, st, f)
            sig = e * s
            tol = _tol(S, sig, rho)
            if sig != 1.0:
                any_sig_not_one = True

            if kind == "single":
                if len(preds) != 1:
                    V("wrong_count", f"single:{provider}", f"frame {fi}: {len(preds)} predictions for a single-instance frame")
                    break
                pairs = [(animals[0], preds[0])]
            else:
                if len(preds) != len(animals):
                    V("wrong_count", f"topdown:{provider}", f"frame {fi}: {len(preds)} instances predicted, {len(animals)} animals present; cfg={describe(plan)}")
                    break
                pairs = []
                used = set()
                for a in animals:
                    ca = np.nanmean(a, axis=0)
                    best, bd = None, None
                    for j, (pp, vv) in enumerate(preds):
                        if j in used or np.isnan(pp).all():
                            continue
                        d = float(np.abs(np.nanmean(pp, axis=0) - ca).max())
                        if bd is None or d < bd:
                            best, bd = j, d
                    if best is None:
                        V("wrong_count", f"topdown:{provider}:allnan", f"frame {fi}: an animal has no non-NaN prediction")
                        break
                    used.add(best)
                    pairs.append((a, preds[best]))
                if violations:
                    break
            for a, (pp, vv) in pairs:
                probes["instances_compared"] += 1
                for j in range(a.shape[0]):
                    if np.isnan(a[j]).any():
                        probes["invisible_checked"] += 1
                        if not (np.isnan(pp[j]).all() and (vv[j] == 0 or np.isnan(vv[j]))):
                            V("invisible_predicted", f"{kind}:{provider}", f"frame {fi} node {j} is invisible but predicted at {pp[j].tolist()} with value {vv[j]}")
                            break
                        continue
                    if np.isnan(pp[j]).any():
                        V("visible_missed", f"{kind}:{provider}", f"frame {fi} node {j} at {a[j].tolist()} is visible but predicted NaN; cfg={describe(plan)}")
                        break
                    err_px = float(np.abs(pp[j] - a[j]).max())
                    probes["keypoints_compared"] += 1
                    probes["worst_err_over_tol_x1000_max"] = max(probes["worst_err_over_tol_x1000_max"], int(1000 * err_px / tol))
                    if err_px > tol:
                        V("wrong_coordinates", f"{kind}:{provider}",
                          f"frame {fi} node {j}: predicted {np.round(pp[j], 2).tolist()} but the keypoint is at {a[j].tolist()} in the original image "
                          f"(error {err_px:.2f} px > tolerance {tol:.2f}; stride {S}, scale {s}, eff_scale {e:.4f}, rho {rho:.2f}); cfg={describe(plan)}")
                        break
                if violations:
                    break
            if violations:
                break
        if violations:
            break
    if violations and kind == "topdown" and violations[0]["kind"] in ("wrong_count", "visible_missed", "wrong_coordinates") and \
            any(n.min_tie < 2e-3 for n in last_nets.values()):
        violations = []  # centroid exactly half-way between two cells: two equal maxima, not general position
        probes["degenerate_tie_scene_skipped"] = 1
    if not violations and len(results) == 2:
        a = results["video"]
        b = {(0, i): results["labels"].get(_fkey(plan, f, i, "labels"), []) for i, f in enumerate(plan["frames"])}
        b = {k: v for k, v in b.items() if v}
        probes["provider_pairs_compared"] += 1
        for fi in sorted(set(a) | set(b)):
            pa, pb = a.get(fi, []), b.get(fi, [])
            if len(pa) != len(pb):
                V("providers_disagree", f"{kind}:count", f"frame {fi}: VideoReader gives {len(pa)} instances, LabelsReader {len(pb)}")
                break
            for (x, xv), (y, yv) in zip(pa, pb):
                if not np.allclose(x, y, atol=1e-4, equal_nan=True):
                    V("providers_disagree", f"{kind}:coords", f"frame {fi}: VideoReader {np.round(x, 3).tolist()} vs LabelsReader {np.round(y, 3).tolist()}; cfg={describe(plan)}")
                    break
            if violations:
                break
    if any_sig_not_one:
        probes["scaled_runs"] = 1
    if mixed or (plan["max_hw"][0] not in (None, plan["H"])) or (plan["max_hw"][1] not in (None, plan["W"])):
        probes["size_matched_runs"] = 1
    if mixed:
        probes["mixed_frame_sizes"] = 1
    if any(len(f["animals"]) == 0 or all(all(q[0] != q[0] for q in a) for a in f["animals"]) for f in plan["frames"]):
        probes["frame_without_visible_animal"] = 1
    ms = plan[st]["max_stride"]
    if ms > 1:
        probes["padded_runs"] = 1
    if plan["refinement"]:
        probes["integral_refinement"] = 1
    cls = describe(plan)
    return {
        "violations": violations,
        "digest": hashlib.blake2b(repr((digests, [v["sig"] for v in violations], probes["keypoints_compared"])).encode(), digest_size=16).hexdigest(),
        "choices": [],
        "shape": hashlib.blake2b(repr(cls).encode(), digest_size=8).hexdigest(),
        "nontrivial": probes["keypoints_compared"] > 0 and (any_sig_not_one or ms > 1 or S > 1),
        "probes": probes,
        "faults": {},
        "sim_us": 0,
        "steps": 0,
        "fault_free": True,
        "states": [],
        "outcome": {"compared": probes["keypoints_compared"], "worst": probes["worst_err_over_tol_x1000_max"] / 1000.0},
    }
