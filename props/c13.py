"""C13 - frame readers deliver each frame once, in order, and always end the stream."""

import hashlib
import random

import numpy as np
import torch

from simcore.sched import HarnessError, SimQueue, sim_threading
from worlds import media, stream

import sleap_io as sio  # noqa: E402
from omegaconf import OmegaConf  # noqa: E402
from sleap_nn.data import providers  # noqa: E402
from sleap_nn.inference import predictors as P  # noqa: E402

ID = "C13"
LEVEL = "exploration"
RULE = (
    "one run = one seeded plan (provider, entry path, frame count, (start,end), queue capacity, "
    "batch size, frame sizes, 0-2 faults, scheduling strategy, coarse/fine pre-emption) executed with "
    "the real reader thread, SimQueue and real Predictor._predict_generator under the baton scheduler; "
    "a run is non-trivial if at least one frame was delivered AND the queue was at least once full-blocked "
    "or empty-blocked or a fault fired; distinct = distinct digest of the (task,event) interleaving "
    "sequence together with the plan's configuration class"
)
COMPONENTS = {
    "real": [
        "sleap_nn.data.providers.VideoReader/LabelsReader (run, from_filename, real threading.Thread)",
        "sleap_nn.inference.predictors.Predictor._predict_generator",
        "SingleInstancePredictor/TopDownPredictor/BottomUpPredictor.make_pipeline",
        "apply_normalization, apply_sizematcher, rgb_to_grayscale, apply_pad_to_stride",
        "sleap_io.Labels/LabeledFrame/Video front-end",
    ],
    "stub": [
        "queue.Queue -> SimQueue (subclass, blocking decided by the scheduler)",
        "video/labels media -> in-memory frames with a read hook (fault seam)",
        "inference model -> Recorder callable that echoes the batch it is given",
        "OS thread scheduling -> baton scheduler; time.sleep -> virtual clock",
        "threading.Lock/RLock/Event/Condition/Semaphore created by sleap_nn modules -> simulated primitives (sim_threading seam)",
    ],
}
ASSUMPTIONS = [
    "queue.Queue, Thread.start/join/is_alive, time.sleep and the threading primitives (Lock, RLock, Event, Condition, Semaphore) that sleap_nn code creates at run time are virtualised; primitives created at import time or inside third-party code are real",
    "schedules, fault positions and configurations are sampled by seed, not enumerated",
]
TIERS = {
    "quick": {"runs": 40000, "time_cap_s": 75, "chunk": 100, "det_inproc": 10, "det_fresh": 5, "minimise_s": 40},
    "thorough": {"runs": 1500000, "time_cap_s": 1200, "chunk": 400, "det_inproc": 60, "det_fresh": 30, "minimise_s": 120},
}

STRATEGIES = ["uniform", "sticky", "sticky", "reader_first", "consumer_first", "pct"]
EXCS = ["OSError", "IndexError", "ValueError", "RuntimeError", "KeyError", "MemoryError"]


def _ident_value(i):
    return 10 * (i % 24 + 1)


def gen_plan(rng, index, tier):
    # stratified prefix: each provider x each fault kind x capacity 1 x partial batch
    strata = []
    for prov in ("video", "labels", "labels_ik"):
        for fk in (None, "read_error", "bad_frame", "stall"):
            strata.append((prov, fk))
    forced = strata[index] if index < len(strata) else None
    prov = forced[0] if forced else rng.choice(["video", "video", "labels", "labels_ik"])
    via = rng.choice(["direct", "make_pipeline"])
    n = rng.choice([0, 1, 1, 2, 2, 3, 3, 4, 5, 6, 7, 8, 10, 12, 16, 24])
    if forced:
        n = max(n, 3)
    batch = rng.choice([1, 1, 2, 2, 3, 4, 5, 6])
    cap = rng.choice([1, 1, 1, 2, 2, 3, 4, 8, 0]) if not forced else 1
    plan = {
        "provider": prov,
        "via": via,
        "pred": rng.choice(["single", "topdown", "bottomup"]) if via == "make_pipeline" else "single",
        "n": n,
        "cap": cap,
        "batch": batch,
        "is_rgb": rng.random() < 0.25,
        "channels": rng.choice([1, 1, 3]),
        "H": rng.choice([4, 5, 6, 8]),
        "W": rng.choice([4, 6, 7, 8]),
        "start": None,
        "end": None,
        "two_sizes": False,
        "faults": [],
        "sched": {
            "strategy": rng.choice(STRATEGIES),
            "switch_p": rng.choice([0.05, 0.3]),
            "fine": rng.random() < 0.25,
        },
    }
    if prov == "video":
        r = rng.random()
        if r < 0.35:
            pass
        elif r < 0.75 and n > 0:
            s = rng.randint(0, n)
            e = rng.randint(s, n)
            plan["start"], plan["end"] = s, e
        elif r < 0.85:
            plan["start"] = rng.randint(0, n)
        elif r < 0.95:
            plan["end"] = rng.randint(0, n)
        else:
            plan["end"] = n + rng.randint(1, 3)  # range reaching past the last frame
        # an image-sequence video whose frames are not all the size the container reports (frame 0's)
        plan["two_sizes"] = rng.random() < 0.2
    else:
        plan["two_sizes"] = rng.random() < 0.4
        plan["shuffle_seed"] = rng.randrange(1 << 30)
        plan["empty_lf"] = rng.random() < 0.3
        plan["same_filename"] = rng.random() < 0.3  # videos embedded in one package file share its file name
        if plan["pred"] == "topdown" and via == "make_pipeline":
            pass
    # faults
    lo = 0 if plan["start"] is None else plan["start"]
    hi = n if plan["end"] is None else min(plan["end"], n)
    nf = forced and forced[1] and 1 or rng.choices([0, 1, 2], [0.5, 0.4, 0.1])[0]
    for j in range(nf if isinstance(nf, int) else 1):
        kind = forced[1] if (forced and forced[1] and j == 0) else rng.choice(["read_error", "read_error", "bad_frame", "stall"])
        if kind == "stall":
            plan["faults"].append(
                {
                    "kind": "stall",
                    "task": rng.choice(["reader", "consumer"]),
                    "at_step": rng.randint(1, 12 * (n + 1)),
                    "dur_us": rng.choice([500, 5000, 50000, 2_000_000]),
                }
            )
        elif hi > lo:
            f = {"kind": kind, "at": rng.randint(lo, hi - 1)}
            if kind == "read_error":
                f["exc"] = rng.choice(EXCS)
            else:
                f["how"] = rng.choice(["rank2", "rank1"])
            plan["faults"].append(f)
    if prov == "video" and via == "direct" and plan["end"] is not None and n > 0 and not forced and rng.random() < 0.06:
        # a video that cannot be opened at all (missing file): no shape, every read fails - the stream must still be closed
        plan["faults"] = [f for f in plan["faults"] if f["kind"] == "stall"] + [{"kind": "unopenable"}]
    return plan


def describe(plan):
    return {k: plan[k] for k in ("provider", "via", "pred", "n", "start", "end", "cap", "batch", "faults", "sched", "two_sizes")}


def shrink(plan):
    import copy

    def mod(**kw):
        p = copy.deepcopy(plan)
        p.update(kw)
        return p

    if plan["faults"]:
        for i in range(len(plan["faults"])):
            p = copy.deepcopy(plan)
            del p["faults"][i]
            yield p
    if plan["sched"].get("fine"):
        p = copy.deepcopy(plan)
        p["sched"]["fine"] = False
        yield p
    if plan["via"] != "direct":
        yield mod(via="direct", pred="single")
    if plan["two_sizes"]:
        yield mod(two_sizes=False)
    if plan["is_rgb"] or plan["channels"] != 1:
        yield mod(is_rgb=False, channels=1)
    n = plan["n"]
    for n2 in sorted({n // 2, n - 1}):
        if 0 <= n2 < n:
            p = mod(n=n2)
            if p["start"] is not None:
                p["start"] = min(p["start"], n2)
            if p["end"] is not None:
                p["end"] = min(p["end"], n2 + 2)
            p["faults"] = [f for f in p["faults"] if f["kind"] in ("stall", "unopenable") or f["at"] < n2]
            if len(p["faults"]) == len(plan["faults"]):
                yield p
    if plan["start"] not in (None, 0):
        yield mod(start=None)
        yield mod(start=plan["start"] - 1)
    if plan["end"] is not None:
        yield mod(end=None)
    if plan["batch"] > 1:
        yield mod(batch=1)
        yield mod(batch=plan["batch"] - 1)
    if plan["cap"] != 1:
        yield mod(cap=1)
    for i, f in enumerate(plan["faults"]):
        if f["kind"] not in ("stall", "unopenable") and f["at"] > 0:
            p = copy.deepcopy(plan)
            p["faults"][i]["at"] = f["at"] - 1
            yield p
        if f["kind"] == "read_error" and f.get("exc") != "OSError":
            p = copy.deepcopy(plan)
            p["faults"][i]["exc"] = "OSError"
            yield p
    if plan.get("empty_lf"):
        yield mod(empty_lf=False)
    if plan["provider"] == "labels_ik":
        yield mod(provider="labels")
    if plan["sched"]["strategy"] != "uniform":
        p = copy.deepcopy(plan)
        p["sched"]["strategy"] = "uniform"
        yield p


# ----------------------------------------------------------------- world
class UnopenableVideo(media.FakeVideo):
    """What sleap_io gives for a missing file: no shape, and every read raises."""

    @property
    def shape(self):
        return None

    def __getitem__(self, idx):
        if self.on_read is not None:
            self.on_read.sim.yield_point("read", int(idx))
            self.on_read.fired["unopenable"] = self.on_read.fired.get("unopenable", 0) + 1
        raise FileNotFoundError("injected: video file cannot be opened")


def _frames(plan):
    """Ground truth stream: list of dict(video_idx, frame_idx, H, W, ident)."""
    n, H, W, C = plan["n"], plan["H"], plan["W"], plan["channels"]
    truth = []
    if plan["provider"] == "video":
        for i in range(n):
            h, w = (H + 2, W + 1) if (plan["two_sizes"] and i % 2) else (H, W)
            truth.append({"v": 0, "f": i, "H": h, "W": w, "ident": _ident_value(i), "key": i})
    else:
        r = random.Random(plan.get("shuffle_seed", 0))
        fidx = list(range(0, 3 * n + 3))
        r.shuffle(fidx)
        for i in range(n):
            v = (i % 2) if plan["two_sizes"] else 0
            h, w = (H, W) if v == 0 else (H + 2, W + 1)
            truth.append({"v": v, "f": fidx[i], "H": h, "W": w, "ident": _ident_value(i), "key": i})
    return truth


def _build(plan, sim, hook):
    truth = _frames(plan)
    C = plan["channels"]
    n = plan["n"]
    labels = video = None
    if plan["provider"] == "video":
        arr = [np.full((t["H"], t["W"], C), t["ident"], dtype=np.uint8) for t in truth]
        video = media.FakeVideo(arr, on_read=hook)
        if any(f["kind"] == "unopenable" for f in plan["faults"]):
            video = UnopenableVideo(arr, on_read=hook)
    else:
        nvid = 2 if plan["two_sizes"] else 1
        vids = []
        per_video = {v: {} for v in range(nvid)}
        for t in truth:
            per_video[t["v"]][t["f"]] = t
        nfr = 3 * n + 3
        for v in range(nvid):
            h, w = (plan["H"], plan["W"]) if v == 0 else (plan["H"] + 2, plan["W"] + 1)
            arr = np.zeros((nfr, h, w, C), dtype=np.uint8)
            for f, t in per_video[v].items():
                arr[f] = t["ident"]
            vids.append(media.make_mem_video(arr, name="project.pkg.slp" if plan.get("same_filename") else f"mem{v}.mp4", on_read=hook))
        sk = media.make_skeleton(2)
        r = random.Random(plan.get("shuffle_seed", 0) + 1)
        spec = []
        for t in truth:
            k = r.randint(1, 3)
            insts = [(np.array([[1.0 + j, 2.0], [2.0, 1.0 + j]]), False) for j in range(k)]
            if plan.get("empty_lf") and r.random() < 0.35:
                # a labelled frame that holds nothing but an empty instance: still a frame of the stream
                k, insts = 0, [(np.full((2, 2), np.nan), False)]
            spec.append((t["v"], t["f"], insts))
            t["ninst"] = k
        labels = media.make_labels(vids, sk, spec)
    # predictor ------------------------------------------------------------
    max_h = max([t["H"] for t in truth], default=plan["H"]) if plan["two_sizes"] else None
    max_w = max([t["W"] for t in truth], default=plan["W"]) if plan["two_sizes"] else None
    prep = {"scale": 1.0, "is_rgb": plan["is_rgb"], "max_stride": 1, "max_height": max_h, "max_width": max_w,
            "crop_hw": (4, 4), "anchor_ind": 0}
    cfg = OmegaConf.create(
        {
            "data_config": {"preprocessing": dict(prep)},
            "model_config": {
                "backbone_config": {"unet": {"max_stride": 2}},
                "head_configs": {
                    "single_instance": {"confmaps": {"output_stride": 1, "anchor_part": 0}},
                    "centroid": {"confmaps": {"output_stride": 1, "anchor_part": 0}},
                    "centered_instance": {"confmaps": {"output_stride": 1, "anchor_part": 0}},
                    "bottomup": {"confmaps": {"output_stride": 1}, "pafs": {"output_stride": 1}},
                },
            },
        }
    )
    ik = plan["provider"] == "labels_ik"
    rec = stream.Recorder(lambda img: int(round(float(img.max()) * 255.0)))
    kind = plan["pred"]
    if kind == "single":
        pred = P.SingleInstancePredictor(confmap_config=cfg, confmap_model=None, batch_size=plan["batch"],
                                         preprocess_config=OmegaConf.create(prep))
    elif kind == "topdown":
        pred = P.TopDownPredictor(centroid_config=cfg, confmap_config=cfg, centroid_model=None, confmap_model=None,
                                  centroid_backbone_type="unet", centered_instance_backbone_type="unet",
                                  batch_size=plan["batch"], preprocess_config=OmegaConf.create(prep))
        pred.instances_key = ik
    else:
        pred = P.BottomUpPredictor(bottomup_config=cfg, bottomup_model=None, backbone_type="unet",
                                   batch_size=plan["batch"], preprocess_config=OmegaConf.create(prep))
    pred.inference_model = rec
    got = []

    def on_get(item):
        try:
            img = item.get("image") if isinstance(item, dict) else None
            if img is None:
                got.append(None if isinstance(item, dict) and all(v is None for v in item.values()) else "weird")
            else:
                got.append(
                    {
                        "f": int(item["frame_idx"]),
                        "v": int(item["video_idx"]),
                        "orig": [int(x) for x in item["orig_size"].tolist()],
                        "ident": int(img.max()),
                        "shape": list(img.shape),
                        "ninst": (int((~torch.isnan(item["instances"][0, :, 0, 0])).sum()) if "instances" in item else None),
                    }
                )
        except Exception as e:  # noqa
            got.append("weird:" + repr(e))

    qfactory = lambda maxsize=0: SimQueue(maxsize, sim=sim, on_get=on_get)
    if plan["via"] == "direct":
        q = qfactory(plan["cap"])
        if plan["provider"] == "video":
            reader = providers.VideoReader(video, q, plan["start"], plan["end"])
        else:
            reader = providers.LabelsReader(labels, q, instances_key=ik)
        pred.pipeline = reader
        pred.preprocess = False
        pred.preprocess_config = {"batch_size": plan["batch"], **{k: prep[k] for k in ("scale", "is_rgb", "max_stride", "max_height", "max_width")}}
        if ik:
            pred.instances_key = True
    else:
        with stream.patched(
            (providers, "Queue", qfactory),
            (sio, "load_video", lambda fn, **k: video),
            (sio, "load_slp", lambda fn, **k: labels),
        ):
            if plan["provider"] == "video":
                pred.make_pipeline("VideoReader", "fake.mp4", queue_maxsize=plan["cap"],
                                   video_start_idx=plan["start"], video_end_idx=plan["end"])
            else:
                pred.make_pipeline("LabelsReader", "fake.slp", queue_maxsize=plan["cap"])
        if ik and kind != "topdown":
            # only the top-down pipeline forwards instances_key; for the others use the attribute directly
            pred.pipeline.instances_key = True
            pred.instances_key = True
        pred.inference_model = rec
    return truth, pred, rec, got


def _expected(plan, truth):
    n = plan["n"]
    if plan["provider"] == "video":
        lo = 0 if plan["start"] is None else plan["start"]
        hi = n if plan["end"] is None else plan["end"]
        seq = list(range(lo, hi))
    else:
        seq = list(range(n))
    fault_at = None
    if any(f["kind"] == "unopenable" for f in plan["faults"]) and seq:
        fault_at = seq[0]
    for f in plan["faults"]:
        if f["kind"] in ("read_error", "bad_frame") and f["at"] in seq:
            fault_at = f["at"] if fault_at is None else min(fault_at, f["at"])
    out = []
    cut = None
    for k in seq:
        if k >= n:
            cut = "past_end"
            break
        if fault_at is not None and k == fault_at:
            cut = "fault"
            break
        out.append(truth[k])
    return out, cut


def execute(plan, choices=None):
    n = plan["n"]
    step_cap = 80 * (n + 3) + 400
    if plan["sched"].get("fine"):
        step_cap *= 12
    sim = stream.make_sim(plan, choices, step_cap)
    truth = None
    violations = []

    def V(kind, detail, where=""):
        sig = f"{kind}:{where}" if where else kind
        violations.append({"kind": kind, "sig": sig, "detail": detail})

    hook = stream.ReadFaults(sim, plan["faults"], key_of=None)
    # LabelsReader reads by (video, frame_idx): map back to the stream position
    sim.register_main("consumer")
    simthr = sim_threading(sim)
    simthr.__enter__()
    try:
        truth, pred, rec, got = _build(plan, sim, hook)
    except Exception as e:  # building the reader / pipeline for a valid plan must not raise (the stream would never even start)
        import traceback

        where = "?"
        for fs in traceback.extract_tb(e.__traceback__):
            if "sleap_nn" in fs.filename:
                where = fs.filename.split("sleap_nn/")[-1] + ":" + fs.name
        if where == "?":
            raise
        simthr.__exit__()
        try:
            sim.teardown()
        except Exception:
            pass
        return {
            "violations": [{"kind": "construction_failed", "sig": f"construction_failed:{type(e).__name__}@{where}",
                            "detail": f"building the reader for plan {describe(plan)} raised {type(e).__name__}: {e}"}],
            "digest": hashlib.blake2b(repr(("construction_failed", type(e).__name__, where)).encode(), digest_size=16).hexdigest(),
            "choices": [], "shape": "construction_failed", "interleaving": "", "nontrivial": False, "probes": {}, "faults": {}, "sim_us": 0, "steps": 0,
            "fault_free": not plan["faults"], "states": [], "outcome": {"delivered": 0, "batches": [], "end": "construction_failed", "steps": 0},
        }
    if plan["provider"] != "video":
        pos = {(t["v"], t["f"]): t["key"] for t in truth}
        vids = pred.pipeline.labels.videos
        hook.key_of = lambda video, idx: pos.get((vids.index(video), idx), -1)
    sim.adopt_thread(pred.pipeline, "reader")
    q = pred.pipeline.frame_buffer
    sim.state_fn = lambda: (min(len(q.queue), 9), len(got) % 7, len(rec.batches) % 5,
                            sim.tasks["reader"].state if "reader" in sim.tasks else "new",
                            sim.tasks["consumer"].state, len(hook.fired))
    try:
        records, end, err = stream.run_consumer(sim, pred)
    finally:
        simthr.__exit__()
    if sim.failure and sim.failure["kind"] == "harness":
        raise HarnessError(sim.failure["detail"])

    exp, cut = _expected(plan, truth)
    # ---- oracle 0: liveness
    if sim.failure:
        V(sim.failure["kind"], sim.failure["detail"] + f" | delivered {len([g for g in got if isinstance(g, dict)])} of {len(exp)} frames, sentinel seen={None in got}",
          "reader-blocked" if "reader blocked" in sim.failure["detail"] else "consumer-blocked" if "consumer blocked" in sim.failure["detail"] else "")
    if sim.thread_exceptions:
        V("reader_thread_died", f"reader thread terminated by an exception: {sim.thread_exceptions}")
    if end == "exception":
        V("consumer_exception", f"_predict_generator raised {err}")
    # ---- oracle 1: what the consumer dequeued
    if not violations:
        items = [g for g in got]
        frames = [g for g in items if isinstance(g, dict)]
        if any(isinstance(g, str) for g in items):
            V("malformed_item", f"queue item is neither a frame nor the all-None marker: {items}")
        n_sent = sum(1 for g in items if g is None)
        if not violations:
            if n_sent != 1 or (items and items[-1] is not None):
                V("marker", f"expected exactly one end-of-stream marker as the last dequeued item; dequeued={_short(items)}")
        if not violations:
            want = [(t["v"], t["f"]) for t in exp]
            have = [(g["v"], g["f"]) for g in frames]
            if have != want:
                kind = "frames_lost" if len(have) < len(want) else "frames_extra" if len(have) > len(want) else "frames_wrong"
                if sorted(have) == sorted(want) and have != want:
                    kind = "frames_reordered"
                V(kind, f"dequeued (video,frame) sequence {have} != requested {want} (cut={cut}); plan={describe(plan)}")
        if not violations:
            for g, t in zip(frames, exp):
                if g["orig"] != [t["H"], t["W"]]:
                    V("orig_size", f"frame {t['f']} carries orig_size {g['orig']} but its true size is {[t['H'], t['W']]}")
                    break
                if g["ident"] != t["ident"]:
                    V("wrong_image", f"frame {t['f']} carries the image of another frame (pixel id {g['ident']} != {t['ident']})")
                    break
                if plan["provider"] == "labels_ik" and g["ninst"] is not None and g["ninst"] != t.get("ninst"):
                    V("wrong_instances", f"frame {t['f']} carries {g['ninst']} instances, labels have {t.get('ninst')}")
                    break
    # ---- oracle 2: what the generator yielded
    if not violations:
        yf = [int(x) for r in records for x in np.asarray(r["frame_idx"]).reshape(-1)]
        yv = [int(x) for r in records for x in np.asarray(r["video_idx"]).reshape(-1)]
        yi = [int(x) for r in records for x in np.asarray(r["ident"]).reshape(-1)]
        yo = [[int(a) for a in x] for r in records for x in np.asarray(r["orig_size"]).reshape(-1, 2)]
        want = [(t["v"], t["f"]) for t in exp]
        if list(zip(yv, yf)) != want:
            V("records", f"records carry (video,frame) {list(zip(yv, yf))} but the stream was {want}; batches={rec.batches}")
        elif yi != [t["ident"] for t in exp]:
            V("records_image", f"record i does not carry frame i's image: ids {yi} vs {[t['ident'] for t in exp]}")
        elif yo != [[t["H"], t["W"]] for t in exp]:
            V("records_orig_size", f"records carry orig_size {yo} vs {[[t['H'], t['W']] for t in exp]}")
        else:
            b = plan["batch"]
            full, rest = divmod(len(exp), b)
            wantb = [b] * full + ([rest] if rest else [])
            if rec.batches != wantb:
                V("batching", f"batches {rec.batches} != {wantb} for {len(exp)} frames at batch size {b}")
    # ---- oracle 3: end state
    if not violations:
        rt = sim.tasks.get("reader")
        if rt is None or rt.state != "done":
            V("reader_alive", "reader thread not finished at the end of inference")
        elif len(q.queue) != 0:
            V("queue_not_empty", f"{len(q.queue)} items left in the frame buffer at the end")

    delivered = len([g for g in got if isinstance(g, dict)])
    st = sim.stats
    faults = dict(hook.fired)
    if st["stalls"]:
        faults["stall"] = st["stalls"]
    if st["early_expiries"]:
        faults["timeout_fires"] = st["early_expiries"]
    probes = {
        "queue_reached_capacity": int(plan["cap"] > 0 and q.max_len_seen >= plan["cap"]),
        "reader_blocked_on_full": int(st["blocked_full"] > 0),
        "consumer_blocked_on_empty": int(st["blocked_empty"] > 0),
        "partial_last_batch": int(bool(rec.batches) and rec.batches[-1] < plan["batch"]),
        "empty_range": int(len(exp) == 0),
        "range_past_end": int(cut == "past_end"),
        "fault_cut_stream": int(cut == "fault"),
        "two_video_sizes": int(plan["two_sizes"] and delivered > 1),
        "videos_share_file_name": int(bool(plan.get("same_filename")) and plan["two_sizes"] and delivered > 1),
        "fine_grained_run": int(plan["sched"].get("fine", False)),
        "via_make_pipeline": int(plan["via"] != "direct"),
        "fair_mode_entered": int(sim.fair_mode),
        "labelled_frame_without_instances": int(any(t.get("ninst") == 0 for t in exp)),
    }
    cls = f"{plan['provider']}/{plan['via']}/{plan['pred']}/c{plan['cap']}/b{plan['batch']}/n{len(exp)}/{cut}"
    inter = sim.interleaving_digest()
    nontrivial = delivered > 0 and (st["blocked_full"] > 0 or st["blocked_empty"] > 0 or bool(faults))
    return {
        "violations": violations,
        "digest": sim.digest(),
        "choices": sim.choices.log,
        "shape": hashlib.blake2b((cls + inter).encode(), digest_size=8).hexdigest(),
        "interleaving": inter,
        "nontrivial": nontrivial,
        "probes": probes,
        "faults": faults,
        "sim_us": sim.now,
        "steps": sim.step,
        "fault_free": not plan["faults"],
        "states": list(sim.abstract_states),
        "outcome": {"delivered": delivered, "batches": rec.batches, "end": end, "steps": sim.step},
    }


def _short(items):
    return [("M" if g is None else (g["f"] if isinstance(g, dict) else g)) for g in items]
