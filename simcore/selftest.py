"""Setup-time self checks: imports work with the shims, SimQueue agrees with queue.Queue."""

import queue
import random


def simqueue_differential(n_seq=300, seed=12345):
    from simcore.sched import SimQueue

    rng = random.Random(seed)
    for s in range(n_seq):
        cap = rng.choice([0, 1, 2, 3, 5])
        a, b = queue.Queue(cap), SimQueue(cap)
        for _ in range(rng.randint(1, 40)):
            op = rng.choice(["put", "get", "qsize", "empty", "full"])
            if op == "put":
                x = rng.randint(0, 99)
                ra = rb = "ok"
                try:
                    a.put(x, block=False)
                except queue.Full:
                    ra = "Full"
                try:
                    b.put(x, block=False)
                except queue.Full:
                    rb = "Full"
            elif op == "get":
                try:
                    ra = a.get(block=False)
                except queue.Empty:
                    ra = "Empty"
                try:
                    rb = b.get(block=False)
                except queue.Empty:
                    rb = "Empty"
            else:
                ra, rb = getattr(a, op)(), getattr(b, op)()
            if ra != rb:
                return False, f"seq {s}: {op} -> Queue={ra} SimQueue={rb}"
    return True, ""


def setup_check():
    from simcore import shims

    shims.setup()
    import sleap_nn.data.custom_datasets  # noqa
    import sleap_nn.data.streaming_datasets  # noqa
    import sleap_nn.inference.predictors  # noqa
    import sleap_nn.training.model_trainer  # noqa
    import sleap_nn.tracking.tracker  # noqa
    import hypothesis  # noqa

    ok, why = simqueue_differential()
    if not ok:
        print("HARNESS-ERROR SimQueue differs from queue.Queue: " + why)
        return 2
    print("setup ok: sleap_nn imports from", shims.REPO)
    return 0
