"""Deterministic baton-passing scheduler for real threads + simulated queue/clock.

Real `threading.Thread` objects keep running real code; the simulator decides which
one runs.  Every simulated task owns a semaphore, exactly one task holds the baton,
and at every scheduling point the running task asks the `ChoiceSource` who goes next.
The `ChoiceSource` is a PRNG during exploration and a recorded list during replay, so
a run is a pure function of (code, plan, choices).
"""

import hashlib
import queue
import sys
import threading

PARK_TIMEOUT_S = 60.0  # real seconds a parked thread waits before declaring the harness broken


class SimAbort(BaseException):
    """Raised inside simulated tasks to unwind them when a run is being torn down."""


class HarnessError(Exception):
    """The simulator itself is broken (lost baton, foreign blocking, ...)."""


class ChoiceSource:
    """All scheduling nondeterminism goes through here."""

    def __init__(self, rng=None, recorded=None):
        self.rng = rng
        self.recorded = list(recorded) if recorded is not None else None
        self.pos = 0
        self.log = []

    def choose(self, weights):
        """Pick an index into `weights` (list of non-negative numbers)."""
        n = len(weights)
        if n <= 1:
            return 0
        if self.recorded is not None:
            if self.pos < len(self.recorded):
                c = self.recorded[self.pos]
                if not (0 <= c < n) or weights[c] < 0:
                    c = 0
            else:
                c = 0  # exhausted: "keep running the current task"
            self.pos += 1
        else:
            tot = float(sum(weights))
            if tot <= 0:
                c = 0
            else:
                x = self.rng.random() * tot
                c = n - 1
                acc = 0.0
                for i, w in enumerate(weights):
                    acc += w
                    if x < acc:
                        c = i
                        break
        self.log.append(c)
        return c


class Task:
    __slots__ = ("name", "sem", "state", "pred", "deadline", "why", "ident", "thread")

    def __init__(self, name):
        self.name = name
        self.sem = threading.Semaphore(0)
        self.state = "ready"  # ready | blocked | done
        self.pred = None
        self.deadline = None
        self.why = None
        self.ident = None
        self.thread = None


class Sim:
    """One simulated execution."""

    STEP_US = 100

    def __init__(
        self,
        choices,
        strategy="uniform",
        switch_p=0.3,
        step_cap=5000,
        expire_deadlines_early=False,
        trace_files=(),
        trace_funcs=(),
        fine=False,
    ):
        self.choices = choices
        self.strategy = strategy
        self.switch_p = switch_p
        self.step_cap = step_cap
        self.expire_early = expire_deadlines_early
        self.fine = fine
        self.trace_files = tuple(trace_files)
        self.trace_funcs = tuple(trace_funcs)
        self.tasks = {}
        self.by_ident = {}
        self.current = None
        self.now = 0
        self.step = 0
        self.trace = []
        self.failure = None  # dict(kind=..., detail=...)
        self.aborting = False
        self.fair_mode = False
        self.rr_last = None
        self.stats = {
            "switches": 0,
            "blocked_full": 0,
            "blocked_empty": 0,
            "deadline_jumps": 0,
            "early_expiries": 0,
            "line_points": 0,
            "stalls": 0,
        }
        self.pending_stalls = []  # list of dict(task, at_step, dur_us)
        self.abstract_states = set()
        self.state_fn = None
        self.thread_exceptions = []
        self.prio = {}

    # ------------------------------------------------------------------ tasks
    def register_main(self, name="consumer"):
        t = Task(name)
        t.ident = threading.get_ident()
        self.tasks[name] = t
        self.by_ident[t.ident] = t
        self.current = t
        if self.fine:
            sys.settrace(self._global_tracer)
        return t

    def _me(self):
        return self.by_ident.get(threading.get_ident())

    def adopt_thread(self, thread, name):
        """Wrap a not-yet-started Thread so the simulator owns its scheduling."""
        sim = self
        orig_run = thread.run
        orig_start = thread.start
        orig_join = thread.join
        task = Task(name)
        task.thread = thread

        def run():
            task.ident = threading.get_ident()
            sim.by_ident[task.ident] = task
            ok = task.sem.acquire(timeout=PARK_TIMEOUT_S)
            if not ok:
                return
            try:
                if sim.aborting:
                    return
                if sim.fine:
                    sys.settrace(sim._global_tracer)
                sim._record(task, "thread_begin")
                try:
                    orig_run()
                finally:
                    sys.settrace(None)
            except SimAbort:
                pass
            except BaseException as e:  # a real thread would die with a traceback
                sim._record(task, "thread_died", type(e).__name__)
                if sim.failure is None and not isinstance(e, HarnessError):
                    sim.thread_exceptions.append((name, repr(e)))
                if isinstance(e, HarnessError) and sim.failure is None:
                    sim.failure = {"kind": "harness", "detail": repr(e)}
            finally:
                sim._task_done(task)

        def start():
            if name in sim.tasks:
                raise RuntimeError("threads can only be started once")
            sim.tasks[name] = task
            orig_start()
            sim.yield_point("thread_start", name)

        def join(timeout=None):
            me = sim._me()
            if me is None:
                return orig_join(timeout)
            sim.yield_point("join?", name)
            if task.state != "done":
                ok = sim.block("join", lambda: task.state == "done", timeout)
                if not ok:
                    return
            orig_join(PARK_TIMEOUT_S)

        def is_alive():
            me = sim._me()
            if me is not None:
                sim.yield_point("is_alive", name)
            return name in sim.tasks and task.state != "done"

        thread.run = run
        thread.start = start
        thread.join = join
        thread.is_alive = is_alive
        thread.name = name
        return task

    # ------------------------------------------------------------- recording
    def _record(self, task, kind, info=None):
        self.trace.append((task.name if task else "-", kind, info))

    def digest(self):
        h = hashlib.blake2b(digest_size=16)
        for ev in self.trace:
            h.update(repr(ev).encode())
            h.update(b"\n")
        return h.hexdigest()

    def interleaving_digest(self):
        h = hashlib.blake2b(digest_size=8)
        for ev in self.trace:
            if ev[1] != "line":
                h.update(f"{ev[0]}:{ev[1]};".encode())
        return h.hexdigest()

    # ------------------------------------------------------------ scheduling
    def _runnable(self, t):
        if t.state == "ready":
            return True
        if t.state == "blocked":
            if t.deadline is not None and self.now >= t.deadline:
                return True
            return bool(t.pred())
        return False

    def _options(self, me):
        """Ordered option list: (task, expire_flag). Current task first."""
        opts = []
        names = sorted(self.tasks)
        if me is not None and me.state != "done" and self._runnable(me):
            opts.append((me, False))
        for n in names:
            t = self.tasks[n]
            if t is me or t.state == "done":
                continue
            if self._runnable(t):
                opts.append((t, False))
        if self.expire_early or not opts:
            for n in names:
                t = self.tasks[n]
                if (
                    t.state == "blocked"
                    and t.deadline is not None
                    and not any(o[0] is t for o in opts)
                ):
                    opts.append((t, True))
        return opts

    def _weights(self, opts, me):
        n = len(opts)
        if n == 1:
            return [1.0]
        if self.fair_mode:
            # round robin: prefer the task after the last one run
            names = [o[0].name for o in opts]
            order = sorted(names)
            if self.rr_last in order:
                k = order.index(self.rr_last)
                order = order[k + 1 :] + order[: k + 1]
            pick = names.index(order[0])
            return [1.0 if i == pick else 0.0 for i in range(n)]
        s = self.strategy
        if s == "pct":
            # PCT-style: fixed seeded priorities, always run the highest-priority runnable task, and at a few seeded steps
            # demote the running task (a priority inversion) - finds bugs that need a small number of specific pre-emptions
            if self.choices.choose([1.0 - self.switch_p / 10.0, self.switch_p / 10.0]) == 1 and me is not None:
                self.prio[me.name] = min(self.prio.values(), default=0) - 1
            for t_, _e in opts:
                if t_.name not in self.prio:
                    self.prio[t_.name] = self.choices.choose([1.0] * 8)  # seeded initial priority
            best = max(range(n), key=lambda i: (self.prio[opts[i][0].name] - (1000 if opts[i][1] else 0), -i))
            return [1.0 if i == best else 0.0 for i in range(n)]
        w = []
        for i, (t, expire) in enumerate(opts):
            base = 1.0
            if expire:
                base = 0.15
            if s == "sticky":
                if t is me:
                    base *= (1.0 - self.switch_p) * (n - 1) / max(self.switch_p, 1e-9)
            elif s == "reader_first":
                if t.name.startswith("reader"):
                    base *= 20.0
            elif s == "consumer_first":
                if t.name.startswith("consumer"):
                    base *= 20.0
            w.append(base)
        return w

    def _pick(self, me):
        opts = self._options(me)
        if not opts:
            return None
        c = self.choices.choose(self._weights(opts, me))
        t, expire = opts[c]
        if expire or (t.state == "blocked" and t.deadline is not None and not t.pred()):
            if self.now < t.deadline:
                self.now = t.deadline
                if expire and any(not o[1] for o in opts):
                    self.stats["early_expiries"] += 1
                else:
                    self.stats["deadline_jumps"] += 1
        return t

    def _check_abort(self):
        if self.aborting:
            raise SimAbort()

    def _tick(self, me, kind, info):
        self.step += 1
        self.now += self.STEP_US
        self._record(me, kind, info)
        if self.state_fn is not None:
            try:
                self.abstract_states.add(self.state_fn())
            except Exception:
                pass
        if self.step > self.step_cap:
            if not self.fair_mode:
                self.fair_mode = True
                self.step_cap = self.step_cap * 2
                self._record(me, "fair_mode_on")
            else:
                self._fail(
                    "livelock",
                    "no termination within the step cap even under fair round-robin scheduling; "
                    + self._who_blocked(),
                )
                raise SimAbort()
        # injected stalls: the named task is descheduled for dur virtual microseconds
        if self.pending_stalls:
            for st in list(self.pending_stalls):
                if st["task"] == me.name and self.step >= st["at_step"]:
                    self.pending_stalls.remove(st)
                    self.stats["stalls"] += 1
                    until = self.now + st["dur_us"]
                    self._record(me, "stall", st["dur_us"])
                    self.block("stall", lambda u=until: self.now >= u, None, deadline_abs=until)

    def yield_point(self, kind, info=None):
        me = self._me()
        if me is None:
            return
        self._check_abort()
        if self.current is not me:
            raise HarnessError(f"task {me.name} ran without the baton at {kind}")
        self._tick(me, kind, info)
        nxt = self._pick(me)
        if nxt is None:
            raise HarnessError("no runnable task at a yield point")
        self._switch(me, nxt)

    def block(self, why, pred, timeout=None, deadline_abs=None):
        """Park the current task until pred() holds (True) or the deadline passes (False)."""
        me = self._me()
        self._check_abort()
        me.state = "blocked"
        me.pred = pred
        me.why = why
        if deadline_abs is not None:
            me.deadline = deadline_abs
        elif timeout is not None:
            me.deadline = self.now + int(max(timeout, 0) * 1_000_000)
        else:
            me.deadline = None
        self._record(me, "block", why)
        nxt = self._pick(me)
        if nxt is None:
            me.state = "ready"
            self._fail("hang", "deadlock: " + self._who_blocked(extra=(me.name, why)))
            self._abort_all(except_task=me)
            raise SimAbort()
        self._switch(me, nxt)
        ok = bool(pred())
        me.state = "ready"
        me.pred = None
        me.deadline = None
        me.why = None
        self._record(me, "unblock", (why, ok))
        return ok

    def _switch(self, me, nxt):
        self.rr_last = nxt.name
        if nxt is me:
            return
        self.stats["switches"] += 1
        self.current = nxt
        nxt.sem.release()
        ok = me.sem.acquire(timeout=PARK_TIMEOUT_S)
        if not ok:
            self.failure = {"kind": "harness", "detail": f"{me.name} lost the baton"}
            self.aborting = True
            raise HarnessError(f"{me.name} parked for {PARK_TIMEOUT_S}s without the baton")
        self._check_abort()

    def _task_done(self, task):
        task.state = "done"
        self._record(task, "thread_end")
        if self.aborting:
            return
        if self.current is not task:
            return
        nxt = self._pick(None)
        if nxt is None:
            if any(t.state != "done" for t in self.tasks.values()):
                self._fail("hang", "deadlock after " + task.name + " ended: " + self._who_blocked())
                self._abort_all()
            return
        self.rr_last = nxt.name
        self.current = nxt
        nxt.sem.release()

    def sleep(self, seconds):
        me = self._me()
        if me is None:
            return
        self.now += int(max(seconds, 0) * 1_000_000)
        self.yield_point("sleep", seconds)

    def _who_blocked(self, extra=None):
        parts = []
        for n in sorted(self.tasks):
            t = self.tasks[n]
            if extra and n == extra[0]:
                parts.append(f"{n} blocked on {extra[1]}")
            elif t.state == "blocked":
                parts.append(f"{n} blocked on {t.why}")
            else:
                parts.append(f"{n} {t.state}")
        return ", ".join(parts)

    def _fail(self, kind, detail):
        if self.failure is None:
            self.failure = {"kind": kind, "detail": detail}

    def _abort_all(self, except_task=None):
        self.aborting = True
        for t in self.tasks.values():
            if t is except_task or t.state == "done":
                continue
            t.sem.release()

    # ------------------------------------------------------------------ end
    def finish(self):
        """Called by the main task when its own work is over: let the others run out."""
        me = self._me()
        others = [t for t in self.tasks.values() if t is not me]
        if not self.aborting and any(t.state != "done" for t in others):
            try:
                self.block(
                    "end_of_run", lambda: all(t.state == "done" for t in others), None
                )
            except SimAbort:
                pass
        self.teardown()

    def teardown(self):
        sys.settrace(None)
        self._abort_all()
        for t in self.tasks.values():
            if t.thread is not None and t.thread.ident is not None:
                threading.Thread.join(t.thread, PARK_TIMEOUT_S)
                if threading.Thread.is_alive(t.thread):
                    raise HarnessError(f"thread {t.name} did not terminate")

    # -------------------------------------------------------------- tracing
    def _global_tracer(self, frame, event, arg):
        code = frame.f_code
        fn = code.co_filename
        if code.co_name == "<module>":
            return None
        for tf in self.trace_files:
            if fn.endswith(tf) or (tf.endswith("/") and tf in fn):
                return self._local_tracer
        if code.co_name in self.trace_funcs:
            return self._local_tracer
        return None

    def _local_tracer(self, frame, event, arg):
        if event == "line" and not self.aborting:
            me = self._me()
            if me is not None and self.current is me:
                self.stats["line_points"] += 1
                self.yield_point("line", frame.f_lineno)
        return self._local_tracer


class SimQueue(queue.Queue):
    """queue.Queue whose blocking is decided by the simulator."""

    def __init__(self, maxsize=0, sim=None, on_put=None, on_get=None):
        super().__init__(maxsize)
        self.sim = sim
        self.on_put = on_put
        self.on_get = on_get
        self.max_len_seen = 0
        self.n_put = 0
        self.n_get = 0

    # -- helpers
    def _full(self):
        return 0 < self.maxsize <= len(self.queue)

    def qsize(self):
        return len(self.queue)

    def empty(self):
        return not self.queue

    def full(self):
        return self._full()

    def put(self, item, block=True, timeout=None):
        sim = self.sim
        if sim is None or sim._me() is None:
            return self._plain_put(item, block)
        sim.yield_point("put?", len(self.queue))
        if self._full():
            if not block:
                sim._record(sim._me(), "put_full")
                raise queue.Full
            if timeout is not None and timeout < 0:
                raise ValueError("'timeout' must be a non-negative number")
            sim.stats["blocked_full"] += 1
            ok = sim.block("put", lambda: not self._full(), timeout)
            if not ok:
                raise queue.Full
        self.queue.append(item)
        self.unfinished_tasks += 1
        self.n_put += 1
        self.max_len_seen = max(self.max_len_seen, len(self.queue))
        if self.on_put is not None:
            self.on_put(item)
        sim.yield_point("put.", len(self.queue))

    def get(self, block=True, timeout=None):
        sim = self.sim
        if sim is None or sim._me() is None:
            return self._plain_get(block)
        sim.yield_point("get?", len(self.queue))
        if not self.queue:
            if not block:
                sim._record(sim._me(), "get_empty")
                raise queue.Empty
            if timeout is not None and timeout < 0:
                raise ValueError("'timeout' must be a non-negative number")
            sim.stats["blocked_empty"] += 1
            ok = sim.block("get", lambda: bool(self.queue), timeout)
            if not ok:
                raise queue.Empty
        item = self.queue.popleft()
        self.n_get += 1
        if self.on_get is not None:
            self.on_get(item)
        sim.yield_point("get.", len(self.queue))
        return item

    def put_nowait(self, item):
        return self.put(item, block=False)

    def get_nowait(self):
        return self.get(block=False)

    def task_done(self):
        if self.unfinished_tasks <= 0:
            raise ValueError("task_done() called too many times")
        self.unfinished_tasks -= 1

    def join(self):
        sim = self.sim
        if sim is None or sim._me() is None:
            return
        if self.unfinished_tasks:
            sim.block("queue.join", lambda: self.unfinished_tasks == 0, None)

    # used outside a simulation (differential self-test only)
    def _plain_put(self, item, block):
        if self._full():
            raise queue.Full
        self.queue.append(item)
        self.unfinished_tasks += 1

    def _plain_get(self, block):
        if not self.queue:
            raise queue.Empty
        return self.queue.popleft()


# ---------------------------------------------------------------------------------------------
# threading primitives created by the code under test (Lock / RLock / Event / Condition /
# Semaphore).  Under the baton exactly one task runs, so each primitive is plain state plus
# `sim.block`; who is woken, and when a timed wait expires, is the scheduler's decision.
# Outside a simulated task (harness code, after the run) they never block.
# ---------------------------------------------------------------------------------------------
def _to(timeout):
    return None if timeout is None or timeout < 0 else timeout


class SimLock:
    def __init__(self, sim):
        self.sim = sim
        self._locked = False

    def acquire(self, blocking=True, timeout=-1):
        sim = self.sim
        if sim._me() is None:
            if self._locked:
                return False
            self._locked = True
            return True
        sim.yield_point("lock?", None)
        if self._locked:
            if not blocking:
                return False
            sim.stats["blocked_lock"] = sim.stats.get("blocked_lock", 0) + 1
            if not sim.block("lock", lambda: not self._locked, _to(timeout)):
                return False
        self._locked = True
        return True

    def release(self):
        if not self._locked:
            raise RuntimeError("release unlocked lock")
        self._locked = False
        self.sim.yield_point("unlock", None)

    def locked(self):
        return self._locked

    __enter__ = acquire

    def __exit__(self, *a):
        self.release()


class SimRLock:
    def __init__(self, sim):
        self.sim = sim
        self._owner = None
        self._count = 0

    def _who(self):
        me = self.sim._me()
        return me.name if me is not None else ("thread", threading.get_ident())

    def acquire(self, blocking=True, timeout=-1):
        sim = self.sim
        who = self._who()
        if self._owner == who:
            self._count += 1
            return True
        if sim._me() is None:
            if self._owner is not None:
                return False
        else:
            sim.yield_point("lock?", None)
            if self._owner is not None:
                if not blocking:
                    return False
                sim.stats["blocked_lock"] = sim.stats.get("blocked_lock", 0) + 1
                if not sim.block("rlock", lambda: self._owner is None, _to(timeout)):
                    return False
        self._owner = who
        self._count = 1
        return True

    def release(self):
        if self._owner != self._who():
            raise RuntimeError("cannot release un-acquired lock")
        self._count -= 1
        if self._count == 0:
            self._owner = None
            self.sim.yield_point("unlock", None)

    def _is_owned(self):
        return self._owner == self._who()

    def _release_save(self):
        st = (self._owner, self._count)
        self._owner, self._count = None, 0
        return st

    def _acquire_restore(self, st):
        sim = self.sim
        if self._owner is not None and sim._me() is not None:
            sim.block("rlock", lambda: self._owner is None, None)
        self._owner, self._count = st

    __enter__ = acquire

    def __exit__(self, *a):
        self.release()


class SimEvent:
    def __init__(self, sim):
        self.sim = sim
        self._flag = False

    def is_set(self):
        return self._flag

    isSet = is_set

    def set(self):
        self._flag = True
        self.sim.yield_point("event.set", None)

    def clear(self):
        self._flag = False

    def wait(self, timeout=None):
        sim = self.sim
        if sim._me() is None:
            return self._flag
        sim.yield_point("event.wait?", None)
        if not self._flag:
            sim.stats["blocked_event"] = sim.stats.get("blocked_event", 0) + 1
            sim.block("event", lambda: self._flag, _to(timeout))
        return self._flag


class SimCondition:
    def __init__(self, sim, lock=None):
        self.sim = sim
        self._lock = lock if lock is not None else SimRLock(sim)
        self.acquire = self._lock.acquire
        self.release = self._lock.release
        self._waiters = []

    def __enter__(self):
        return self._lock.__enter__()

    def __exit__(self, *a):
        return self._lock.__exit__(*a)

    def _owned(self):
        if hasattr(self._lock, "_is_owned"):
            return self._lock._is_owned()
        return self._lock.locked()

    def wait(self, timeout=None):
        sim = self.sim
        if not self._owned():
            raise RuntimeError("cannot wait on un-acquired lock")
        if sim._me() is None:
            return False
        ticket = [False]
        self._waiters.append(ticket)
        if hasattr(self._lock, "_release_save"):
            st = self._lock._release_save()
        else:
            st = None
            self._lock._locked = False
        sim.stats["blocked_cond"] = sim.stats.get("blocked_cond", 0) + 1
        try:
            ok = sim.block("cond", lambda: ticket[0], _to(timeout))
        finally:
            if ticket in self._waiters:
                self._waiters.remove(ticket)
            if st is not None:
                self._lock._acquire_restore(st)
            else:
                if self._lock._locked:
                    sim.block("lock", lambda: not self._lock._locked, None)
                self._lock._locked = True
        return bool(ok)

    def wait_for(self, predicate, timeout=None):
        sim = self.sim
        end = None if _to(timeout) is None else sim.now + int(timeout * 1_000_000)
        result = predicate()
        while not result:
            left = None
            if end is not None:
                left = (end - sim.now) / 1_000_000
                if left <= 0:
                    break
            self.wait(left)
            result = predicate()
        return result

    def notify(self, n=1):
        if not self._owned():
            raise RuntimeError("cannot notify on un-acquired lock")
        for ticket in self._waiters[:n]:
            ticket[0] = True
        del self._waiters[:n]

    def notify_all(self):
        self.notify(len(self._waiters))

    notifyAll = notify_all


class SimSemaphore:
    def __init__(self, sim, value=1, bound=None):
        if value < 0:
            raise ValueError("semaphore initial value must be >= 0")
        self.sim = sim
        self._value = value
        self._bound = bound

    def acquire(self, blocking=True, timeout=None):
        sim = self.sim
        if sim._me() is None:
            if self._value == 0:
                return False
            self._value -= 1
            return True
        sim.yield_point("sem?", None)
        if self._value == 0:
            if not blocking:
                return False
            sim.stats["blocked_sem"] = sim.stats.get("blocked_sem", 0) + 1
            if not sim.block("sem", lambda: self._value > 0, _to(timeout)):
                return False
        self._value -= 1
        return True

    def release(self, n=1):
        if self._bound is not None and self._value + n > self._bound:
            raise ValueError("Semaphore released too many times")
        self._value += n
        self.sim.yield_point("sem.release", None)

    __enter__ = acquire

    def __exit__(self, *a):
        self.release()


class sim_threading:
    """While active, `threading.Lock/RLock/Event/Condition/Semaphore/BoundedSemaphore` return the simulated
    primitive when the *calling module* belongs to the code under test (prefixes), and the real one for everybody
    else (queue, logging, torch, threading itself).  Restored on exit, also on SimAbort."""

    NAMES = ("Lock", "RLock", "Event", "Condition", "Semaphore", "BoundedSemaphore")

    def __init__(self, sim, prefixes=("sleap_nn",)):
        self.sim = sim
        self.prefixes = tuple(prefixes)
        self.saved = {}
        self.created = 0

    def _mine(self):
        f = sys._getframe(2)
        mod = f.f_globals.get("__name__", "")
        return any(mod == p or mod.startswith(p + ".") for p in self.prefixes)

    _active = None

    def __enter__(self):
        if sim_threading._active is not None:  # an earlier run left through an exception path: undo it first
            sim_threading._active.__exit__()
        sim_threading._active = self
        sim = self.sim
        real = {n: getattr(threading, n) for n in self.NAMES}
        self.saved = real
        outer = self

        def mk(name, build):
            def factory(*a, **k):
                if outer._mine():
                    outer.created += 1
                    sim.stats["sim_primitives"] = sim.stats.get("sim_primitives", 0) + 1
                    return build(*a, **k)
                return real[name](*a, **k)

            factory.__name__ = name
            return factory

        threading.Lock = mk("Lock", lambda: SimLock(sim))
        threading.RLock = mk("RLock", lambda: SimRLock(sim))
        threading.Event = mk("Event", lambda: SimEvent(sim))
        threading.Condition = mk("Condition", lambda lock=None: SimCondition(sim, lock))
        threading.Semaphore = mk("Semaphore", lambda value=1: SimSemaphore(sim, value))
        threading.BoundedSemaphore = mk("BoundedSemaphore", lambda value=1: SimSemaphore(sim, value, bound=value))
        # `from threading import Event` inside the code under test bound the real class at import time
        self.rebound = []
        for mname, mod in sorted(sys.modules.items()):
            if mod is None or not any(mname == p or mname.startswith(p + ".") for p in self.prefixes):
                continue
            for attr, val in list(vars(mod).items()):
                for n in self.NAMES:
                    if val is real[n]:
                        self.rebound.append((mod, attr, val))
                        setattr(mod, attr, getattr(threading, n))
        return self

    def __exit__(self, *a):
        if sim_threading._active is self:
            sim_threading._active = None
        for n, v in self.saved.items():
            setattr(threading, n, v)
        for mod, attr, val in getattr(self, "rebound", ()):
            setattr(mod, attr, val)
        self.saved, self.rebound = {}, []
        return False
