"""Generic driver: seeds -> plans -> simulated runs -> oracles -> minimise -> replay -> evidence.

A property module (props/cXX.py) provides

    ID, LEVEL, RULE, COMPONENTS, ASSUMPTIONS, TIERS = {"quick": {...}, "thorough": {...}}
    gen_plan(rng, index, tier) -> JSON-able plan
    execute(plan, choices=None) -> dict(violations=[{kind,sig,detail}], digest, choices,
                                        shape, nontrivial, probes, faults, sim_us, steps,
                                        fault_free, states=[...])
    shrink(plan) -> iterable of smaller candidate plans
    describe(plan) -> small JSON-able summary used as evidence sample

Exit codes: 0 held / only known findings; 1 VIOLATION; 2 HARNESS-ERROR.
"""

import concurrent.futures as cf
import faulthandler
import hashlib
import importlib
import json
import multiprocessing as mp
import os
import random
import subprocess
import sys
import time
import traceback

VERIF = os.path.dirname(os.path.dirname(os.path.abspath(__file__)))
_ALT = os.path.realpath(os.environ.get("VERIF_REPO", "/repo")) != "/repo"
# runs against a scratch tree (mutant testing) must not clobber the evidence of /repo
REPLAY_DIR = os.environ.get("VERIF_REPLAY_DIR") or (
    "/dev/shm/verif-alt/replays" if _ALT else os.path.join(VERIF, "replays")
)
EVIDENCE_DIR = os.environ.get("VERIF_EVIDENCE_DIR") or (
    "/dev/shm/verif-alt/evidence" if _ALT else os.path.join(VERIF, "evidence")
)
KNOWN_FILE = os.path.join(VERIF, "known_findings.json")
NWORKERS = int(os.environ.get("VERIF_WORKERS", "16"))


def run_seed(verif_seed, prop_id, index):
    h = hashlib.blake2b(f"{verif_seed}:{prop_id}:{index}".encode(), digest_size=8)
    return int.from_bytes(h.digest(), "big")


def load_prop(prop_id):
    return importlib.import_module("props." + prop_id.lower())


def seed_everything(seed):
    import numpy as np
    import torch

    random.seed(seed)
    np.random.seed(seed % (2**32))
    torch.manual_seed(seed)


def one_run(prop, verif_seed, index, tier, plan=None, choices=None):
    seed = run_seed(verif_seed, prop.ID, index)
    if plan is None:
        plan = prop.gen_plan(random.Random(seed), index, tier)
        plan["seed"] = seed
    seed_everything(plan.get("seed", seed))
    res = prop.execute(plan, choices)
    res["plan"] = plan
    res["index"] = index
    return res


# ------------------------------------------------------------------ workers
def run_forked(fn, *args, timeout=3600):
    """Run fn(*args) in a forked child whose module state is the parent's (pristine: the parent never executes plans).
    Process-global state a run leaves behind (module-level caches, class attributes) therefore never leaks from one
    chunk / minimisation / self-test into another, and a run's history is exactly the runs before it in its own chunk."""
    import pickle
    import select
    import signal

    r, w = os.pipe()
    sys.stdout.flush()
    sys.stderr.flush()
    pid = os.fork()
    if pid == 0:
        code = 0
        try:
            os.close(r)
            try:
                data = pickle.dumps(("ok", fn(*args)))
            except BaseException as e:  # noqa
                data = pickle.dumps(("err", repr(e) + "\n" + traceback.format_exc()[-3000:]))
                code = 3
            with os.fdopen(w, "wb") as f:
                f.write(data)
        finally:
            os._exit(code)
    os.close(w)
    chunks = []
    t0 = time.time()
    try:
        while True:
            left = timeout - (time.time() - t0)
            if left <= 0:
                os.kill(pid, signal.SIGKILL)
                os.waitpid(pid, 0)
                raise RuntimeError("forked child timed out")
            rd, _, _ = select.select([r], [], [], min(left, 5.0))
            if rd:
                b = os.read(r, 1 << 20)
                if not b:
                    break
                chunks.append(b)
    finally:
        os.close(r)
    os.waitpid(pid, 0)
    if not chunks:
        raise RuntimeError("forked child died without a result (watchdog / crash)")
    kind, val = pickle.loads(b"".join(chunks))
    if kind == "err":
        raise RuntimeError("forked child failed: " + val)
    return val


def _chunk(args):
    return run_forked(_chunk_body, args)


def _chunk_body(args):
    prop_id, verif_seed, tier, start, count, watchdog = args
    from simcore import shims

    shims.setup()
    prop = load_prop(prop_id)
    agg = {
        "n": 0,
        "shapes": set(),
        "probes": {},
        "faults": {},
        "sim_us": 0,
        "steps": 0,
        "fault_free": 0,
        "faulty": 0,
        "viol": [],
        "samples": [],
        "states": set(),
        "interleavings": set(),
        "harness": [],
        "first": start,
    }
    for index in range(start, start + count):
        faulthandler.dump_traceback_later(watchdog, exit=True)
        try:
            res = one_run(prop, verif_seed, index, tier)
        except BaseException as e:  # harness failure, never a VIOLATION
            faulthandler.cancel_dump_traceback_later()
            agg["harness"].append(
                {"index": index, "error": repr(e), "tb": traceback.format_exc()[-3000:]}
            )
            continue
        faulthandler.cancel_dump_traceback_later()
        agg["n"] += 1
        if res.get("nontrivial"):
            agg["shapes"].add(res["shape"])
        if res.get("interleaving"):
            agg["interleavings"].add(res["interleaving"])
        for k, v in res.get("probes", {}).items():
            if k.endswith("_max"):
                agg["probes"][k] = max(agg["probes"].get(k, 0), int(v))
            else:
                agg["probes"][k] = agg["probes"].get(k, 0) + int(v)
        for k, v in res.get("faults", {}).items():
            agg["faults"][k] = agg["faults"].get(k, 0) + int(v)
        agg["sim_us"] += res.get("sim_us", 0)
        agg["steps"] += res.get("steps", 0)
        if res.get("fault_free", True):
            agg["fault_free"] += 1
        else:
            agg["faulty"] += 1
        for s in res.get("states", ()):
            agg["states"].add(s)
        if res["violations"]:
            v = res["violations"][0]
            agg["viol"].append(
                {
                    "index": index,
                    "plan": res["plan"],
                    "choices": res.get("choices", []),
                    "kind": v["kind"],
                    "sig": v["sig"],
                    "detail": v["detail"][:2000],
                    "digest": res.get("digest"),
                    "n_viol": len(res["violations"]),
                    "chunk_start": start,
                }
            )
        if len(agg["samples"]) < 1:
            agg["samples"].append(
                {"index": index, "plan": prop.describe(res["plan"]), "outcome": res.get("outcome")}
            )
    return agg


def explore(prop, verif_seed, tier, runs, time_cap_s, chunk, watchdog):
    """Run indices [0, runs) on NWORKERS forked workers until done or time is up."""
    ctx = mp.get_context("fork")
    t0 = time.time()
    total = {
        "n": 0,
        "shapes": set(),
        "probes": {},
        "faults": {},
        "sim_us": 0,
        "steps": 0,
        "fault_free": 0,
        "faulty": 0,
        "viol": [],
        "samples": [],
        "states": set(),
        "interleavings": set(),
        "harness": [],
        "chunks_done": [],
    }
    nxt = 0
    pending = {}
    stop_submitting = False
    known_sigs = set(known_open(prop.ID))
    with cf.ProcessPoolExecutor(max_workers=NWORKERS, mp_context=ctx) as ex:
        try:
            while True:
                while (
                    not stop_submitting
                    and nxt < runs
                    and len(pending) < NWORKERS * 2
                    and time.time() - t0 < time_cap_s
                ):
                    cnt = min(chunk, runs - nxt)
                    f = ex.submit(_chunk, (prop.ID, verif_seed, tier, nxt, cnt, watchdog))
                    pending[f] = (nxt, cnt)
                    nxt += cnt
                if not pending:
                    break
                done, _ = cf.wait(list(pending), return_when=cf.FIRST_COMPLETED)
                for f in done:
                    start, cnt = pending.pop(f)
                    agg = f.result()
                    total["chunks_done"].append((start, cnt))
                    total["n"] += agg["n"]
                    total["shapes"] |= agg["shapes"]
                    total["states"] |= agg["states"]
                    total["interleavings"] |= agg["interleavings"]
                    for k, v in agg["probes"].items():
                        if k.endswith("_max"):
                            total["probes"][k] = max(total["probes"].get(k, 0), v)
                        else:
                            total["probes"][k] = total["probes"].get(k, 0) + v
                    for k, v in agg["faults"].items():
                        total["faults"][k] = total["faults"].get(k, 0) + v
                    for k in ("sim_us", "steps", "fault_free", "faulty"):
                        total[k] += agg[k]
                    total["viol"].extend(agg["viol"])
                    total["harness"].extend(agg["harness"])
                    total["samples"].extend(agg["samples"])
                    # stop early once enough distinct violation classes were seen (listed known findings do not count:
                    # they recur in every batch and must not cut the exploration short)
                    fresh = [v for v in total["viol"] if v["sig"] not in known_sigs]
                    if len({v["sig"] for v in fresh}) >= 6 or len(fresh) > 400:
                        stop_submitting = True
        except cf.process.BrokenProcessPool as e:
            total["harness"].append({"index": -1, "error": "worker died (watchdog?): " + repr(e)})
    total["viol"].sort(key=lambda v: v["index"])
    total["samples"].sort(key=lambda s: s["index"])
    total["wall"] = time.time() - t0
    return total


# ---------------------------------------------------------------- replaying
def fresh_exec(args, hashseed="0", timeout=900, env_extra=None):
    env = dict(os.environ)
    env["PYTHONHASHSEED"] = str(hashseed)
    env["VERIF_REEXEC"] = "1"
    if env_extra:
        env.update(env_extra)
    p = subprocess.run(
        [os.path.join(VERIF, "check")] + args,
        env=env,
        capture_output=True,
        text=True,
        timeout=timeout,
        cwd=VERIF,
    )
    return p


def repo_head():
    try:
        from simcore import shims

        out = subprocess.run(
            ["git", "-C", shims.REPO, "rev-parse", "HEAD"], capture_output=True, text=True
        ).stdout.strip()
        dirty = subprocess.run(
            ["git", "-C", shims.REPO, "status", "--porcelain", "-uno"],
            capture_output=True,
            text=True,
        ).stdout.strip()
        return out + ("+dirty" if dirty else "")
    except Exception:
        return "unknown"


def replay_file(path):
    """Re-execute a replay file. Exit 1 if the recorded violation recurs exactly."""
    from simcore import shims

    shims.setup()
    rep = json.load(open(path))
    prop = load_prop(rep["property"])
    for h in rep.get("history", []):
        # earlier runs of the same process: the violation needs the state they leave behind
        seed_everything(h["plan"].get("seed", 0))
        prop.execute(h["plan"], h.get("choices"))
    seed_everything(rep["plan"].get("seed", 0))
    res = prop.execute(rep["plan"], rep.get("choices"))
    if not res["violations"]:
        print(f"REPLAY property={rep['property']} no violation on this tree (recorded: {rep['sig']})")
        return 0
    v = res["violations"][0]
    same = v["sig"] == rep["sig"] and res.get("digest") == rep.get("digest")
    print(f"REPLAY property={rep['property']} sig={v['sig']} digest={res.get('digest')} same_as_recorded={same}")
    print("  " + v["detail"][:1500].replace("\n", "\n  "))
    if same:
        print(f"VIOLATION property={rep['property']} replay={path}")
        return 1
    if v["sig"] == rep["sig"]:
        print("REPLAY-DIGEST-MISMATCH (same violation class, different trace)")
        return 3
    return 3


# -------------------------------------------------------------- minimising
def minimise(prop, v, budget_s):
    """Greedy delta debugging over prop.shrink(plan); keeps the violation signature."""
    t0 = time.time()
    plan, choices, sig = v["plan"], v["choices"], v["sig"]
    tried = 0

    def fails(p, ch):
        nonlocal tried
        tried += 1
        try:
            seed_everything(p.get("seed", 0))
            r = prop.execute(p, ch)
        except BaseException:
            return None
        if r["violations"] and r["violations"][0]["sig"] == sig:
            return r
        return None

    # 1. schedule: try "always keep running the current task"
    best = None
    if choices:
        r = fails(plan, [])
        if r is not None:
            choices = r.get("choices", [])
            best = r
    progress = True
    while progress and time.time() - t0 < budget_s:
        progress = False
        for cand in prop.shrink(plan):
            if time.time() - t0 > budget_s:
                break
            r = fails(cand, None if not choices else [])
            ch = [] if r is not None else None
            if r is None and choices:
                r = fails(cand, choices)
                ch = choices
            if r is not None:
                plan = cand
                choices = r.get("choices", []) if ch == [] or ch is None else r.get("choices", choices)
                best = r
                progress = True
                break
    # 2. shorten the recorded schedule: zero suffixes, then zero single switches
    if choices and time.time() - t0 < budget_s:
        lo, hi = 0, len(choices)
        # shortest prefix that still fails when the rest defaults to 0
        while lo < hi and time.time() - t0 < budget_s:
            mid = (lo + hi) // 2
            r = fails(plan, choices[:mid])
            if r is not None:
                hi = mid
                best = r
            else:
                lo = mid + 1
        cand = choices[:hi]
        if fails(plan, cand) is not None:
            choices = cand
        i = 0
        while i < len(choices) and time.time() - t0 < budget_s:
            if choices[i] != 0:
                c2 = list(choices)
                c2[i] = 0
                r = fails(plan, c2)
                if r is not None:
                    choices = c2
                    best = r
            i += 1
    best = fails(plan, choices)
    if best is None:
        # fall back to the un-minimised run
        plan, choices = v["plan"], v["choices"]
        best = fails(plan, choices)
    if best is None:
        return None
    choices = best.get("choices", choices)
    return {
        "plan": plan,
        "choices": choices,
        "kind": best["violations"][0]["kind"],
        "sig": sig,
        "detail": best["violations"][0]["detail"],
        "digest": best.get("digest"),
        "tried": tried,
    }


def _exec_sequence(prop_id, seq, sig):
    """Execute a list of (plan, choices) in order in THIS process; result of the last one if it violates with `sig`."""
    prop = load_prop(prop_id)
    r = None
    for plan, ch in seq:
        seed_everything(plan.get("seed", 0))
        r = prop.execute(plan, ch)
    if r and r["violations"] and r["violations"][0]["sig"] == sig:
        return {"kind": r["violations"][0]["kind"], "detail": r["violations"][0]["detail"], "digest": r.get("digest"), "choices": r.get("choices", [])}
    return None


def minimise_history(prop, v, verif_seed, tier, budget_s):
    """The violation does not recur when its run is executed alone: it depends on state left by earlier runs of the same
    process. Rebuild the chunk's prefix from the seeds, confirm in a pristine forked child, then delta-debug the prefix."""
    t0 = time.time()
    sig = v["sig"]
    hist = []
    for i in range(v.get("chunk_start", v["index"]), v["index"]):
        seed = run_seed(verif_seed, prop.ID, i)
        plan = prop.gen_plan(random.Random(seed), i, tier)
        plan["seed"] = seed
        hist.append((plan, None))
    last = (v["plan"], v["choices"] or None)
    tried = 1
    if run_forked(_exec_sequence, prop.ID, hist + [last], sig) is None:
        return None
    n = max(len(hist) // 2, 1)
    while hist and n >= 1 and time.time() - t0 < budget_s:
        changed = False
        i = 0
        while i < len(hist) and time.time() - t0 < budget_s:
            cand = hist[:i] + hist[i + n:]
            tried += 1
            if run_forked(_exec_sequence, prop.ID, cand + [last], sig) is not None:
                hist = cand
                changed = True
            else:
                i += n
        if not changed:
            if n == 1:
                break
            n = max(n // 2, 1)
    fin = run_forked(_exec_sequence, prop.ID, hist + [last], sig)
    if fin is None:
        return None
    # the replay must execute the last run with exactly the choice source it had here: the recorded log if the property
    # records one, else what it was given (None = the plan's own PRNG; an empty list would mean "never switch")
    return {"plan": v["plan"], "choices": fin["choices"] or last[1], "kind": fin["kind"], "sig": sig, "detail": fin["detail"], "digest": fin["digest"], "tried": tried,
            "history": [{"plan": p, "choices": c} for p, c in hist]}


# ------------------------------------------------------------ known findings
def load_known():
    if not os.path.exists(KNOWN_FILE):
        return []
    return json.load(open(KNOWN_FILE)).get("findings", [])


def known_open(prop_id):
    out = {}
    for f in load_known():
        if f.get("property") == prop_id and f.get("status") == "open":
            out[f["sig"]] = f
    return out


# ------------------------------------------------------------------- check
def determinism_selftest(prop, verif_seed, tier, n_inproc, n_fresh):
    """Same seed twice in-process, and once in a fresh interpreter under another hash seed."""
    from simcore import shims

    shims.setup()
    # two pristine forked children execute the same sequence of runs: equal digests <=> a run is a function of
    # (code, plan, choices, the runs before it in its process). Executing one index twice in ONE process would mistake
    # process-global state of the code under test (a class-level counter, a module cache) for harness nondeterminism.
    def seq():
        return [one_run(prop, verif_seed, i, tier)["digest"] for i in range(n_inproc)]

    a, b = run_forked(seq), run_forked(seq)
    for i in range(n_inproc):
        if a[i] != b[i]:
            return False, f"index {i}: digests differ between two identical executions {a[i]} vs {b[i]}", 0
    digs = dict(enumerate(a))
    if n_fresh:
        p = fresh_exec(
            [prop.ID, "--digests", str(n_fresh), "--tier", tier],
            hashseed="4242",
            env_extra={"VERIF_SEED": str(verif_seed)},
        )
        if p.returncode != 0:
            return False, "fresh interpreter failed: " + p.stderr[-1500:], 0
        got = json.loads(p.stdout.strip().splitlines()[-1])
        for i in range(min(n_fresh, n_inproc)):
            if got[str(i)] != digs[i]:
                return (
                    False,
                    f"index {i}: digest differs in fresh interpreter (PYTHONHASHSEED=4242) {got[str(i)]} vs {digs[i]}",
                    0,
                )
    return True, "", n_inproc


def print_digests(prop_id, n, tier, verif_seed, start=0):
    from simcore import shims

    shims.setup()
    prop = load_prop(prop_id)
    out = {}
    for i in range(start, start + n):
        out[str(i)] = one_run(prop, verif_seed, i, tier)["digest"]
    print(json.dumps(out))
    return 0


def selftest_determinism(ids, n, tier, verif_seed):
    """Large-sample determinism proof: indices [0,n) of every property are executed in 8 fresh interpreters under
    PYTHONHASHSEED=0 (slices of n/8) and again in 3 fresh interpreters under PYTHONHASHSEED=98765 (slices of n/3, i.e. a
    different process/ordering layout); all digests must agree. Writes evidence_extra/determinism.json."""
    import concurrent.futures as cf2

    out = {}
    rc = 0
    for pid in ids:
        t0 = time.time()

        def job(args):
            hs, start, cnt = args
            p = fresh_exec([pid, "--digests", str(cnt), "--digest-start", str(start), "--tier", tier], hashseed=hs,
                           env_extra={"VERIF_SEED": str(verif_seed)}, timeout=3000)
            if p.returncode != 0:
                return {"error": p.stderr[-500:]}
            return json.loads(p.stdout.strip().splitlines()[-1])

        a_jobs = [("0", s, min(-(-n // 8), n - s)) for s in range(0, n, -(-n // 8))]
        b_jobs = [("98765", s, min(-(-n // 3), n - s)) for s in range(0, n, -(-n // 3))]
        with cf2.ThreadPoolExecutor(max_workers=11) as ex:
            res = list(ex.map(job, a_jobs + b_jobs))
        A, B = {}, {}
        err = None
        for (hs, s, c), r in zip(a_jobs + b_jobs, res):
            if "error" in r:
                err = r["error"]
                continue
            (A if hs == "0" else B).update(r)
        diff = [i for i in A if A[i] != B.get(i)]
        ok = err is None and not diff and len(A) == n
        out[pid] = {"indices": n, "layouts": "8 procs x PYTHONHASHSEED=0 vs 3 procs x PYTHONHASHSEED=98765", "mismatches": len(diff),
                    "first_mismatch": diff[:3], "error": err, "ok": ok, "wall_s": round(time.time() - t0, 1)}
        print(f"[determinism] {pid}: {n} indices, mismatches={len(diff)} error={bool(err)} ({out[pid]['wall_s']}s)")
        sys.stdout.flush()
        if not ok:
            rc = 2
    os.makedirs(os.path.join(VERIF, "evidence_extra"), exist_ok=True)
    path = os.path.join(VERIF, "evidence_extra", "determinism.json")
    prev = json.load(open(path)) if os.path.exists(path) else {}
    prev.update(out)
    json.dump(prev, open(path, "w"), indent=1)
    return rc


def check(prop_id, tier, verif_seed):
    from simcore import shims

    t0 = time.time()
    try:
        shims.setup()
        prop = load_prop(prop_id)
    except BaseException as e:
        print(f"HARNESS-ERROR import: {e!r}")
        traceback.print_exc()
        return 2
    cfg = dict(prop.TIERS[tier])
    if os.environ.get("VERIF_RUNS"):
        cfg["runs"] = int(os.environ["VERIF_RUNS"])
    if os.environ.get("VERIF_TIME_CAP"):
        cfg["time_cap_s"] = float(os.environ["VERIF_TIME_CAP"])
    print(f"[{prop_id}] tier={tier} VERIF_SEED={verif_seed} repo={shims.REPO} runs<={cfg['runs']} cap={cfg['time_cap_s']}s workers={NWORKERS}")
    sys.stdout.flush()

    ok, why, n_det = run_forked(determinism_selftest, prop, verif_seed, tier, cfg.get("det_inproc", 8), cfg.get("det_fresh", 4))
    if not ok:
        print(f"HARNESS-ERROR nondeterministic: {why}")
        return 2

    total = explore(
        prop,
        verif_seed,
        tier,
        cfg["runs"],
        cfg["time_cap_s"],
        cfg.get("chunk", 50),
        cfg.get("watchdog_s", 300),
    )
    if total["harness"]:
        for h in total["harness"][:5]:
            print(f"HARNESS-ERROR run index={h['index']}: {h['error']}")
            if h.get("tb"):
                print(h["tb"])
        write_evidence(prop, tier, verif_seed, total, [], [], time.time() - t0, n_det, harness=True)
        return 2

    # ---- triage violations
    known = known_open(prop_id)
    by_sig = {}
    for v in total["viol"]:
        by_sig.setdefault(v["sig"], []).append(v)
    reported, known_hit = [], []
    rc = 0
    if by_sig:
        print(f"[{prop_id}] violation classes seen: " + ", ".join(f"{k} x{len(v)}" for k, v in sorted(by_sig.items())))
    os.makedirs(REPLAY_DIR, exist_ok=True)
    for sig in sorted(by_sig):
        vs = by_sig[sig]
        v = min(vs, key=lambda x: (len(json.dumps(x["plan"])), x["index"]))
        if sig in known:
            print(f"KNOWN-FINDING: property={prop_id} {known[sig]['what']} [{len(vs)} runs, sig={sig}]")
            known_hit.append({"sig": sig, "runs": len(vs)})
            continue
        if len(reported) >= cfg.get("max_reports", 4):
            continue
        # does the run violate on its own in a pristine process? (if not, it needs the runs before it: history mode)
        alone = run_forked(_exec_sequence, prop.ID, [(v["plan"], v["choices"] or None)], sig)
        m = None
        if alone is not None:
            m = run_forked(minimise, prop, v, cfg.get("minimise_s", 60))
            if m is None or run_forked(_exec_sequence, prop.ID, [(m["plan"], m["choices"] or None)], sig) is None:
                # the minimiser's candidates share one process; if state they left behind misled it, keep the original run
                m = {"plan": v["plan"], "choices": alone["choices"] or (v["choices"] or None), "kind": alone["kind"], "sig": sig, "detail": alone["detail"],
                     "digest": alone["digest"], "tried": 1}
        if m is None:
            # not reproducible alone: does it need the runs that came before it in its process?
            m = minimise_history(prop, v, verif_seed, tier, cfg.get("minimise_s", 60))
            if m is not None:
                print(f"[{prop_id}] violation {sig} depends on state left behind by {len(m['history'])} earlier run(s) of the same process (process-global state)")
        if m is None:
            print(f"HARNESS-ERROR nondeterministic: violation {sig} at index {v['index']} did not recur when re-executed")
            return 2
        path = os.path.join(REPLAY_DIR, f"{prop_id}-{verif_seed}-{v['index']}-{_slug(sig)}.json")
        rep = {
            "property": prop_id,
            "verif_seed": verif_seed,
            "index": v["index"],
            "repo_head": repo_head(),
            "plan": m["plan"],
            "choices": m["choices"],
            "kind": m["kind"],
            "sig": m["sig"],
            "detail": m["detail"],
            "digest": m["digest"],
            "history": m.get("history", []),
            "original_plan": v["plan"],
            "runs_with_this_sig": len(vs),
            "minimiser_executions": m["tried"],
        }
        with open(path, "w") as f:
            json.dump(rep, f, indent=1)
        p = fresh_exec(["--replay", path])
        if p.returncode != 1 or "VIOLATION property=" not in p.stdout:
            print(f"HARNESS-ERROR nondeterministic: replay of {path} in a fresh interpreter gave exit {p.returncode}")
            print(p.stdout[-2000:])
            print(p.stderr[-2000:])
            return 2
        print(f"--- {prop_id} violation kind={m['kind']} sig={sig} ({len(vs)} runs; first index {v['index']}; minimised with {m['tried']} executions)")
        print("    " + m["detail"][:1200].replace("\n", "\n    "))
        print(f"VIOLATION property={prop_id} replay={path}")
        reported.append({"sig": sig, "replay": path, "runs": len(vs)})
        rc = 1
    write_evidence(prop, tier, verif_seed, total, reported, known_hit, time.time() - t0, n_det)
    print(
        f"[{prop_id}] {total['n']} runs, {len(total['shapes'])} distinct non-trivial shapes, "
        f"{len(reported)} violation classes, {len(known_hit)} known findings, {time.time()-t0:.1f}s"
    )
    return rc


def _slug(s):
    return "".join(c if c.isalnum() else "-" for c in s)[:60]


def write_evidence(prop, tier, verif_seed, total, reported, known_hit, wall, n_det, harness=False):
    os.makedirs(EVIDENCE_DIR, exist_ok=True)
    from simcore import shims

    n = total["n"]
    ev = {
        "property_id": prop.ID,
        "tier": tier,
        "seed": int(verif_seed),
        "level": prop.LEVEL,
        "coverage": {
            "evaluations": n,
            "distinct_nontrivial": len(total["shapes"]),
            "rule": prop.RULE,
            "samples": total["samples"][:6],
            "runs_per_hour": int(n / max(wall, 1e-6) * 3600),
            "exploration_wall_s": round(total.get("wall", wall), 2),
            "seeds": f"run i uses blake2b(VERIF_SEED:{prop.ID}:i), i in completed chunks (count={n})",
            "simulated_time_s": round(total["sim_us"] / 1e6, 3),
            "scheduler_steps": total["steps"],
            "faults_fired": dict(sorted(total["faults"].items())),
            "probes": dict(sorted(total["probes"].items())),
            "coverage_warnings": sorted(
                k for k, v in total["probes"].items() if v == 0
            ),
            "distinct_interleavings": len(total["interleavings"]),
            "abstract_states": len(total["states"]),
            "fault_free_runs": total["fault_free"],
            "faulty_runs": total["faulty"],
            "components": prop.COMPONENTS,
            "determinism_selftest": {"seeds_run_twice_and_in_fresh_interpreter": n_det, "ok": True},
            "known_findings_hit": known_hit,
            "violations_reported": reported,
            "harness_errors": len(total["harness"]),
            "workers": NWORKERS,
            "repo_head": repo_head(),
        },
        "assumptions": list(shims.ASSUMPTIONS) + list(getattr(prop, "ASSUMPTIONS", [])),
        "wall_s": round(wall, 2),
        "violations": len(reported),
    }
    path = os.path.join(EVIDENCE_DIR, f"{prop.ID}.json")
    tmp = path + ".tmp"
    with open(tmp, "w") as f:
        json.dump(ev, f, indent=1, default=str)
    os.replace(tmp, path)


def main(argv):
    import argparse

    ap = argparse.ArgumentParser()
    ap.add_argument("prop", nargs="?")
    ap.add_argument("--tier", default=os.environ.get("VERIF_TIER", "quick"))
    ap.add_argument("--replay")
    ap.add_argument("--digests", type=int)
    ap.add_argument("--digest-start", type=int, default=0)
    ap.add_argument("--selftest-determinism", type=int, metavar="N", help="N indices per property, across processes and hash seeds")
    ap.add_argument("--setup", action="store_true")
    ap.add_argument("--one", type=int, help="run a single index verbosely")
    a = ap.parse_args(argv)
    verif_seed = int(os.environ.get("VERIF_SEED", "0"))
    if a.tier not in ("quick", "thorough"):
        a.tier = "quick"
    if a.setup:
        from simcore import selftest

        return selftest.setup_check()
    if a.replay:
        return replay_file(a.replay)
    if a.selftest_determinism is not None:
        ids = [a.prop.upper()] if a.prop else ["C02", "C03", "C04", "C09", "C10", "C11", "C12", "C13", "C14", "C18", "C19"]
        return selftest_determinism(ids, a.selftest_determinism, a.tier, verif_seed)
    if a.digests is not None:
        return print_digests(a.prop, a.digests, a.tier, verif_seed, a.digest_start)
    if a.one is not None:
        from simcore import shims

        shims.setup()
        prop = load_prop(a.prop)
        r = one_run(prop, verif_seed, a.one, a.tier)
        r2 = dict(r)
        print(json.dumps(r2, indent=1, default=str)[:6000])
        return 0
    return check(a.prop.upper(), a.tier, verif_seed)
