"""Environment shims: make the pinned tree importable in this sandbox.

Nothing here changes sleap-nn's behaviour; it only restores names that newer
dependency versions dropped, and pins the process to one compute thread so that
forked workers are safe and results do not depend on the worker count.
"""

import os
import sys

os.environ.setdefault("OMP_NUM_THREADS", "1")
os.environ.setdefault("MKL_NUM_THREADS", "1")
os.environ.setdefault("OPENBLAS_NUM_THREADS", "1")
os.environ.setdefault("WANDB_MODE", "offline")
os.environ.setdefault("WANDB_SILENT", "true")

REPO = os.path.realpath(os.environ.get("VERIF_REPO", "/repo"))
_ready = False


def setup():
    """Import torch/kornia with shims and put VERIF_REPO first on sys.path."""
    global _ready
    if _ready:
        return
    import warnings

    warnings.filterwarnings("ignore")
    if REPO not in sys.path:
        sys.path.insert(0, REPO)
    # an editable install may already have imported another copy
    for name in list(sys.modules):
        if name == "sleap_nn" or name.startswith("sleap_nn."):
            del sys.modules[name]
    import torch

    torch.set_num_threads(1)
    try:
        torch.set_num_interop_threads(1)
    except RuntimeError:
        pass
    import kornia.core

    if not hasattr(kornia.core, "Tensor"):
        kornia.core.Tensor = torch.Tensor
    from loguru import logger

    logger.remove()  # sleap-nn logs errors through loguru; keep stdout clean
    import sleap_nn

    here = os.path.realpath(os.path.dirname(sleap_nn.__file__))
    if not here.startswith(REPO):
        raise RuntimeError(
            f"sleap_nn imported from {here}, expected under VERIF_REPO={REPO}"
        )
    _ready = True


ASSUMPTIONS = [
    "kornia.core.Tensor is aliased to torch.Tensor in the harness process "
    "(kornia 0.8.3 dropped the name sleap_nn.data.augmentation imports)",
    "single compute thread (OMP_NUM_THREADS=1, torch.set_num_threads(1)), CPU only",
    "sleap_nn is imported from VERIF_REPO (default /repo) working tree",
]
