#!/usr/bin/env python3
"""Regenerates MANIFEST.json from the table below (kept in one place so it is always valid)."""
import json, os

NA = {
 "C01": "pure function of its arguments (generate_confmaps / generate_multiconfmaps): no schedule, clock, fault, storage or call history can change its value, so deterministic simulation has nothing to search over",
 "C05": "pure function (generate_pafs): value depends only on (instances, edges, size, stride, sigma); no nondeterminism or fault surface to simulate",
 "C06": "pure tensor->tensor function (find_local_peaks[_rough]); batch independence is a statement about one call's arguments, not about schedules/faults/histories (its batch-leak failure mode is exercised end-to-end under C12)",
 "C07": "pure function of the map batch (find_global_peaks[_rough], integral_regression); ties/borders/thresholds are input classes, not schedules or faults",
 "C08": "PAFScorer.predict and helpers keep no state and touch no I/O; totality and the partition/optimality invariants quantify over input tensors only",
 "C15": "algebraic properties of stateless numpy functions (compute_oks, match_instances, matching helpers)",
 "C16": "Evaluator computes once from two label sets; no history, no I/O, no scheduling after construction - a pure function of its inputs",
 "C17": "pure and finite (toposort_edges over small trees); the fitting technique is exhaustive enumeration (model checking), which this task's technique family excludes; a seeded sample would be strictly weaker",
 "C20": "config builders / normalisation are pure functions from arguments to a config object; the YAML round trip is a fault-free deterministic serialisation (crash-time contents of config files are C19's business)",
}

CHECKS = {}

def add(pid, level, text, note, technique, design_ref):
    CHECKS[pid] = {
        "property_id": pid,
        "quick_cmd": f"./check {pid} --tier quick",
        "thorough_cmd": f"./check {pid} --tier thorough",
        "evidence_file": f"evidence/{pid}.json",
        "replay_cmd_template": "./check --replay {path}",
        "engine": "simcore",
        "level_claimed": {"category": level, "text": text, "design_ref": design_ref},
        "level_note": note,
        "technique": technique,
    }

add("C13", "exploration",
    "Seeded search over producer/consumer interleavings x read-fault positions x stalls x configurations with the real reader thread, a simulated bounded queue and the real _predict_generator; each run is checked against the sequential FIFO-with-end-marker model and for deadlock/livelock. Sampling, not enumeration: a clean batch is evidence, not proof.",
    "Trusts the baton scheduler/SimQueue (differentially tested against queue.Queue at setup) and that scheduling points at queue ops, frame reads, thread start/join (+ traced lines in fine mode) cover the interleavings that matter; inference model is a recorder stub.",
    "deterministic simulation: seeded baton scheduler over real threads + fault injection at the frame-read seam, FIFO reference model",
    "DESIGN.md section 5 C13")

add("C09", "exploration",
    "Seeded search over frame histories (simulated scene -> sensor-fault model -> detection lists) x tracker configurations with the real Tracker; conservation oracle (no crash, nothing dropped/duplicated/invented, every above-threshold detection tracked, no track twice per frame) after every track() call. Sampling of histories; evidence, not proof.",
    "Detections are synthetic PredictedInstances (>=2 visible keypoints, finite scores); max_tracks=None; FlowShiftTracker not simulated.",
    "deterministic simulation: seeded scene + sensor-fault injection feeding the real stateful tracker, conservation invariants per step",
    "DESIGN.md section 5 C09")
add("C10", "exploration",
    "Seeded search over scenes drawn from the class the property names (well separated, short absences, newcomers only while all visible, permuted detection order) x tracker configurations; identity oracle (animal<->track relation is an injective function over the whole history).",
    "Scenario class fixed from the statement (separation >= 10 body sizes and above the whole clip's motion, absence <= window-2, body-diagonal nodes visible; slow, fast-common-motion and wander modes; late arrivals may start below the new-track threshold, during which no identity is promised and nobody is absent; flat bodies only under IoU without motion across their line); runs where C09 fails are left to C09.",
    "deterministic simulation: seeded scene histories against the real tracker with a ground-truth identity reference model",
    "DESIGN.md section 5 C10")

add("C19", "fault_enumeration",
    "Whole training runs (ModelTrainer.__init__ + train(), one step, tiny UNet) in forked children on an audited file system. Within each explored configuration the durable state is inspected before every mutating FS event (virtual crash), a set of fixed configurations is additionally killed for real (os._exit) before every event index, and seeded runs add real kills and ENOSPC/EIO at seeded events; configurations themselves are sampled by seed (model type, data framework, tracking on/off/offline, checkpointing, config origin plain/YAML/structured, lr-scheduler and early-stopping shapes incl. null, optimizer, derived crop size, low-memory fallback, login failure, output-folder reuse and resume). Artifact oracle (configs equal to supplied/used with key blanked, final run id = the run logged to, checkpoints iff requested, chunks deleted) on fault-free runs.",
    "Trusts sys.addaudithook to report every mutating FS operation before it executes (file contents only grow between events); wandb replaced by a fake that persists everything it is told; litdata framework, DataLoader workers and GPUs not simulated.",
    "deterministic simulation: crash-point enumeration and disk-fault injection on an interposed file system, byte-scan durability oracle",
    "DESIGN.md section 5 C19")

add("C11", "exploration",
    "Seeded operation histories (get in any order, next, DataLoader epochs, npz reopen, functional-API calls, RNG jumps) over the four Dataset classes in in-memory and npz mode on synthetic label sets with NaN/empty/predicted instances; after every operation labels and call arguments are compared bit-for-bit with pristine copies, every sample with its first read and with a fresh dataset built from a pristine copy, plus NaN-in=>NaN-out, centroid fallback and dataset length.",
    "Augmentation off for dataset reads; in-memory video backend; num_workers=0; filtering lf.instances to user instances is treated as documented behaviour.",
    "deterministic simulation: seeded operation histories against a pristine-copy reference model (history independence / purity)",
    "DESIGN.md section 5 C11")

add("C04", "exploration",
    "Seeded scenes with coordinate-carrying frames pushed through chains of functional-API geometry steps and through the four Dataset classes with augmentation ON (random draws behind the seed, moved by RNG-jump operations); the output image is decoded at every output keypoint and must return the original keypoint within a tolerance derived from the statement; exact output sizes, bottom/right-only padding, intensity-only identity.",
    "Tolerance = statement's one output pixel + derived size-rounding and half-pixel-convention slack (looser than the statement, never stricter); only keypoints whose neighbourhood is image content are decoded; in-memory datasets.",
    "deterministic simulation of the augmentation RNG: seeded draws + content-decoding oracle on coordinate-carrying frames",
    "DESIGN.md section 5 C04")

add("C18", "exploration",
    "Seeded label sets x model type x configuration: the in-memory dataset is the reference model; the npz-chunk dataset (real file round trip, incl. re-open with use_existing_chunks) and the chunk-function -> streaming __getitem__ path are read in a seeded order and compared key by key (images within 1/255, keypoints 1e-4, maps 1e-5); each legacy DataPipe block is compared with its functional counterpart on seeded examples.",
    "litdata's optimize()/binary store is replaced by an in-memory list (deep copies); compared only where the docs prescribe the same order of operations; singleton-axis differences in keypoint tensors and the num_instances bookkeeping field are not counted.",
    "deterministic simulation: seeded read histories over three storage back ends with the in-memory dataset as executable reference model",
    "DESIGN.md section 5 C18")

add("C02", "exploration",
    "Seeded configurations (sizes, size matching, scales of both stages, strides, crop, refinement, batch, dtype, anchor) x scenes in general position, run through the simulated inference stream with both providers around an ideal-network stub that decodes from the tensor it is handed where the content came from; predicted coordinates must match the scene in original-image coordinates within a tolerance derived from the statement, invisible keypoints NaN/0, LabelsReader == VideoReader. Also run: label files with two videos of different sizes, empty labelled frames, non-square / non-stride-multiple crops, grayscale blob frames, and the centered-instance model alone on a labels file (ground-truth centroids).",
    "Trusts the content-decoding stub (closed-form Gaussian bumps from C01's statement, least-squares axis fit) and the derived tolerance (half cell + half-pixel convention + size rounding + 0.6 px); make_labels=False records.",
    "deterministic simulation of the inference stream with an ideal-network stub and content-decoding oracle",
    "DESIGN.md section 5 C02")

add("C03", "exploration",
    "Seeded tree skeletons x well-separated animals with missing nodes x sizes x scale x (confmap stride, PAF stride) x refinement x batch through the simulated inference stream with BottomUpPredictor; the stub network returns the repository's own training targets for the keypoints it locates in the image it is handed (closing the train/inference loop); predicted instances must equal the connected components of each labelled animal, within the C02 tolerance, nothing extra.",
    "Scenario class fixed from first principles (PAF sigma rule, separation, analytic own>=0.6 / cross<=0.1 pre-check written in the harness); schedules/faults are irrelevant to this property and only varied because it is free.",
    "deterministic simulation of the inference stream with an ideal confmap+PAF stub built from the repo's target generators",
    "DESIGN.md section 5 C03")
add("C12", "exploration",
    "Refinement check: every seeded plan is executed as a batched stream (real reader thread, SimQueue, real _predict_generator and inference models), as per-frame runs on fresh predictors, and in a permuted order; per frame the instances, values, scores and indices must agree within 1e-4; empty frames, partial last batches, read faults that cut the stream, two-video label files (also sharing one file name), whole-empty batches, border scenes, tiny PAF grids, binding max_instances and the top-down sub-modes (both models, centered-instance model with ground-truth centroids, centroid model with ground-truth peaks on sparsely labelled frames) are stratified in.",
    "Stub networks are pure per-sample functions so any dependence found is sleap-nn's; bottom-up max_instances (make_labels path) not checkable here.",
    "deterministic simulation: batched stream vs per-frame reference runs (refinement against a sequential reference)",
    "DESIGN.md section 5 C12")

add("C14", "exploration",
    "Seeded points of the model-configuration grid (UNet / ConvNeXt / Swin-T x strides x stem x filters_rate x convs_per_block x up_interpolate x middle_block x head types incl. bottom-up with differing strides), normalised by check_output_strides, assembled with the real Model and driven through histories of eval-mode forward calls of differing batch/size with RNG jumps and batch permutations; output count/channels/spatial size must equal the shapes the target generators produce and every frame must equal a pristine deep copy's output on that frame alone.",
    "Validity set fixed from docs/code structure (head strides < max_stride; ConvNeXt/Swin presets with filters_rate 2 and max_stride = 8*stem_patch_stride); two documented UNet options that cannot run are listed as known findings; small filter counts; CPU eval mode.",
    "deterministic simulation of call histories over assembled models with a pristine-copy reference (plus seeded sampling of the configuration grid)",
    "DESIGN.md section 5 C14")

PENDING = ["C02","C03","C04","C09","C10","C11","C12","C14","C18","C19"]

def main():
    built = set(CHECKS)
    na = [{"property_id": k, "reason": v} for k, v in sorted(NA.items())]
    for p in PENDING:
        if p not in built:
            na.append({"property_id": p, "reason": "applicable (see DESIGN.md section 5) but its check is not built yet; not claimed until it is"})
    m = {
        "version": 1,
        "setup_cmd": "./check --setup",
        "hooks": {
            "guard": "SLEAP_NN_VERIF",
            "enable": "no source hooks are needed: every seam is reached from the harness process through constructor arguments, module attributes, sys.addaudithook, sys.settrace and builtins.open; checks import sleap_nn from /repo's working tree (VERIF_REPO overrides)",
            "baseline_off_cmd": "cd /repo && /venv/bin/python -m pytest -ra -q -p no:cacheprovider --timeout=900 --continue-on-collection-errors",
            "source_commits": [],
            "add_only": True,
        },
        "engines": [
            {"name": "simcore", "path": "simcore/", "serves_properties": sorted(built),
             "kind_free_text": "deterministic simulation with fault injection: seeded plan generator, baton scheduler for real threads, SimQueue, virtual clock, interposed file system, reference-model oracles, delta-debugging minimiser, exact replay"}
        ],
        "checks": [CHECKS[k] for k in sorted(CHECKS)],
        "not_applicable": sorted(na, key=lambda x: x["property_id"]),
        "notes": "All checks: exit 0 held / known findings only; exit 1 with VIOLATION line; exit 2 HARNESS-ERROR (never a VIOLATION). VERIF_SEED selects the seed stream; VERIF_REPO points the checks at another tree.",
    }
    with open(os.path.join(os.path.dirname(os.path.abspath(__file__)), "MANIFEST.json"), "w") as f:
        json.dump(m, f, indent=1)

if __name__ == "__main__":
    main()
