#!/usr/bin/env python3
"""Confirm a sub-agent's seeded change in its scratch worktree and import it into /verif/seeded/<name>/.
usage: tools_confirm_seeded.py <PROP> <worktree> <variant A|B> <name> "<needs>"
Steps (all run here, not trusted from the agent): patch applies; 112 stable tests pass with it; demo fails with it;
demo passes without it. Writes meta.json with what was run."""
import json, os, shutil, subprocess, sys

prop, wt, var, name, needs = sys.argv[1:6]
src = os.path.join(wt, f"SEEDED_{var}")
env = dict(os.environ, PYTHONPATH=wt, OMP_NUM_THREADS="1", WANDB_MODE="offline")
TESTS = ("tests/architectures tests/config tests/data/test_confmaps.py tests/data/test_edge_maps.py tests/data/test_get_data_chunks.py "
         "tests/data/test_instance_centroids.py tests/data/test_instance_cropping.py tests/data/test_normalization.py tests/data/test_providers.py "
         "tests/data/test_resizing.py tests/data/test_utils.py tests/inference/test_paf_grouping.py tests/inference/test_peak_finding.py "
         "tests/inference/test_utils.py tests/test_version.py tests/test_evaluation.py::test_compute_oks").split()

def sh(cmd, **kw):
    return subprocess.run(cmd, cwd=wt, env=env, capture_output=True, text=True, **kw)

res = {"property": prop, "variant": var, "needs_to_manifest": needs, "worktree": wt}
assert sh(["git", "status", "--porcelain", "-uno"]).stdout.strip() == "", "worktree not clean"
d0 = sh(["/venv/bin/python", f"SEEDED_{var}/demo.py"], timeout=1200)
res["demo_exit_without_change"] = d0.returncode
a = sh(["git", "apply", f"SEEDED_{var}/patch.diff"])
res["patch_applies"] = a.returncode == 0
if a.returncode == 0:
    try:
        t = sh(["/venv/bin/python", "-m", "pytest", "-q", "-p", "no:cacheprovider", "--timeout=900", "--continue-on-collection-errors"] + TESTS, timeout=1800)
        res["tests_with_change"] = t.stdout.strip().splitlines()[-1] if t.stdout.strip() else t.stderr[-200:]
        res["tests_pass_with_change"] = t.returncode == 0 and "112 passed" in t.stdout
        imp = sh(["/venv/bin/python", "-c", "import sleap_nn;print(sleap_nn.__file__)"])
        res["import_resolves_to"] = imp.stdout.strip()
        d1 = sh(["/venv/bin/python", f"SEEDED_{var}/demo.py"], timeout=1200)
        res["demo_exit_with_change"] = d1.returncode
        res["demo_output_with_change"] = (d1.stdout + d1.stderr)[-700:]
    finally:
        sh(["git", "checkout", "--", "."])
res["confirmed"] = bool(res.get("patch_applies") and res.get("tests_pass_with_change") and res.get("demo_exit_with_change", 0) != 0 and res["demo_exit_without_change"] == 0)
print(json.dumps({k: v for k, v in res.items() if k != "demo_output_with_change"}, indent=1))
if res["confirmed"]:
    dst = os.path.join("/verif/seeded", name)
    os.makedirs(dst, exist_ok=True)
    for f in ("patch.diff", "demo.py", "notes.md"):
        if os.path.exists(os.path.join(src, f)):
            shutil.copy(os.path.join(src, f), os.path.join(dst, f))
    res["what_was_run"] = ["git apply patch.diff in a scratch worktree", "the 112 stable tests (pytest subset) with the change: all pass",
                           "demo.py with the change: non-zero exit", "demo.py without the change: exit 0"]
    res.pop("worktree")
    json.dump(res, open(os.path.join(dst, "meta.json"), "w"), indent=1)
